#!/bin/bash
# Offline set-up: make sure hypothesis is importable by /venv/bin/python; try to add atheris to /verif/.deps (optional).
cd "$(dirname "${BASH_SOURCE[0]}")" || exit 1
export PIP_NO_INDEX=1
PY=/venv/bin/python
if ! $PY -c "import hypothesis" >/dev/null 2>&1; then
  $PY -m pip install -q --no-index --find-links /opt/veriftools/wheels hypothesis || exit 1
fi
if ! PYTHONPATH=.deps $PY -c "import atheris" >/dev/null 2>&1; then
  $PY -m pip install -q --no-index --find-links /opt/veriftools/wheels --target .deps atheris >/dev/null 2>&1 \
    || echo "note: atheris not installable; thorough fuzz tiers fall back to hypothesis"
fi
$PY -c "import hypothesis, lxml, sdc11073; print('setup ok: hypothesis', hypothesis.__version__)"
