"""Canonical (semantic) form of containers, data types and whole MDIBs, plus the lookup audit.

Containers have no usable __eq__ (CodedValue.__eq__ raises), so equality is defined here:
a recursive walk over sorted_container_properties() producing nested tuples.  Effective values are used
(an absent attribute with an implied value equals the explicit implied value); timestamps compare at the
1 ms wire resolution; durations at 1 us; Decimals numerically; the self-updating ClockState.DateAndTime and the
lxml node back-reference are excluded.
"""
from __future__ import annotations

import enum
from decimal import Decimal

from lxml import etree

from sdc11073.mdib.containerbase import ContainerBase
from sdc11073.xml_types import xml_structure as xs
from sdc11073.xml_types.basetypes import XMLTypeBase


class TS:
    """Timestamp in seconds; equal if closer than half a millisecond (+ float slack): the wire carries whole milliseconds,
    rounded to nearest, so a value and its wire form differ by at most 0.5 ms."""

    __slots__ = ('v',)

    def __init__(self, v):
        self.v = float(v)

    def __eq__(self, other):
        return isinstance(other, TS) and abs(self.v - other.v) < 0.000501

    def __ne__(self, other):
        return not self == other

    def __hash__(self):
        return 1

    def __repr__(self):
        return f'TS({self.v!r})'


class Dur:
    """Duration in seconds; equal within 1 us (+ relative float slack)."""

    __slots__ = ('v',)

    def __init__(self, v):
        self.v = float(v)

    def __eq__(self, other):
        return isinstance(other, Dur) and abs(self.v - other.v) <= 1.0000001e-6 + 1e-12 * abs(self.v)

    def __ne__(self, other):
        return not self == other

    def __hash__(self):
        return 2

    def __repr__(self):
        return f'Dur({self.v!r})'


def canon_elem(e):
    """Manual canonical form of an lxml element (extension content): tag, sorted attributes, leaf text, children."""
    if not isinstance(e.tag, str):  # comment / PI
        return None
    children = tuple(c for c in (canon_elem(ch) for ch in e) if c is not None)
    text = None
    if not children:
        text = e.text or ''
    return ('elem', e.tag, tuple(sorted((k, v) for k, v in e.attrib.items())), text, children)


_TS_PROPS = (xs.TimestampAttributeProperty,)
_DUR_PROPS = (xs.DurationAttributeProperty, xs.NodeDurationProperty)


def _canon_leaf(v):
    if v is None or isinstance(v, (str, bool, int, Decimal, enum.Enum)):
        return v
    if isinstance(v, float):
        return v
    if isinstance(v, etree.QName):
        return ('qname', v.text)
    if isinstance(v, (XMLTypeBase, ContainerBase)):
        return canon(v)
    if isinstance(v, etree._Element):  # noqa: SLF001
        return canon_elem(v)
    if isinstance(v, (list, tuple)):
        return tuple(x for x in (_canon_leaf(i) for i in v) if not (x is None and isinstance(v, xs.ExtensionLocalValue)))
    if isinstance(v, dict):
        return tuple(sorted((repr(k), _canon_leaf(x)) for k, x in v.items()))
    return v  # dataclasses (XsdDateInformation) etc. compare by ==


def canon(obj, skip_versions: bool = False):
    """Canonical nested-tuple form of an XMLTypeBase / ContainerBase instance (or a plain value)."""
    if not isinstance(obj, (XMLTypeBase, ContainerBase)):
        return _canon_leaf(obj)
    items = []
    for name, prop in obj.sorted_container_properties():
        if isinstance(prop, xs.CurrentTimestampAttributeProperty):
            continue
        if skip_versions and name in ('DescriptorVersion', 'StateVersion'):
            continue
        v = getattr(obj, name)
        if v is not None and isinstance(prop, _TS_PROPS):
            cv = TS(v)
        elif v is not None and isinstance(prop, _DUR_PROPS):
            cv = Dur(v)
        elif isinstance(v, (XMLTypeBase, ContainerBase)):
            cv = canon(v, skip_versions)
        else:
            cv = _canon_leaf(v)
        if cv is None and isinstance(prop, (xs.ExtensionNodeProperty, xs._ElementListProperty, xs._AttributeListBase)):  # noqa: SLF001
            cv = ()  # an unset list is an empty list
        if cv is None and isinstance(prop, xs.NodeStringProperty) and not prop.is_optional:
            cv = ''  # a mandatory text element without a value is written as an empty element
        items.append((name, cv))
    return ('obj', type(obj).__name__, tuple(items))


def read_law(obj, path: str = '') -> list:
    """Problems with reading members: a value that is stored must be the value seen through the property.

    (canon() reads members through the properties, on both sides of every comparison; this is the independent check
    that reading itself does not replace stored values - by implied values, defaults or anything else.)
    """
    out = []
    if not isinstance(obj, (XMLTypeBase, ContainerBase)):
        return out
    for name, prop in obj.sorted_container_properties():
        if isinstance(prop, xs.CurrentTimestampAttributeProperty) or not hasattr(prop, 'get_actual_value'):
            continue
        actual = prop.get_actual_value(obj)
        if actual is None:
            continue
        seen = getattr(obj, name)
        same = seen is actual
        if not same and not isinstance(actual, (XMLTypeBase, ContainerBase, list)):
            try:
                same = type(seen) is type(actual) and seen == actual
            except Exception:  # noqa: BLE001
                same = False
        if not same:
            out.append(f'{path}.{name}: stored {actual!r:.80} but the property reads {seen!r:.80}')
            continue
        if isinstance(actual, (XMLTypeBase, ContainerBase)):
            out += read_law(actual, f'{path}.{name}')
        elif isinstance(actual, list):
            for i, item in enumerate(actual):
                out += read_law(item, f'{path}.{name}[{i}]')
    return out


def diff(a, b, path='') -> list:
    """List of (path, a, b) for the places where two canonical forms differ (first few)."""
    out = []
    _diff(a, b, path, out)
    return out


def _diff(a, b, path, out, limit=6):
    if len(out) >= limit:
        return
    if a == b:
        return
    if (isinstance(a, tuple) and isinstance(b, tuple) and len(a) == 3 and len(b) == 3 and a[0] == 'obj' == b[0]):
        if a[1] != b[1]:
            out.append((path + '/<class>', a[1], b[1]))
            return
        da, db = dict(a[2]), dict(b[2])
        for k in da.keys() | db.keys():
            _diff(da.get(k, '<absent>'), db.get(k, '<absent>'), f'{path}.{k}', out, limit)
        return
    if isinstance(a, tuple) and isinstance(b, tuple) and len(a) == len(b) and not (a and a[0] in ('elem', 'qname')):
        for i, (x, y) in enumerate(zip(a, b)):
            _diff(x, y, f'{path}[{i}]', out, limit)
        return
    if isinstance(a, dict) and isinstance(b, dict):
        for k in sorted(a.keys() | b.keys(), key=repr):
            _diff(a.get(k, '<absent>'), b.get(k, '<absent>'), f'{path}[{k!r}]', out, limit)
        return
    out.append((path, _short(a), _short(b)))


def _short(x, n=300):
    s = repr(x)
    return s if len(s) <= n else s[:n] + '...'


# ---------------------------------------------------------------------------------------------- whole MDIBs

def canon_mdib(mdib, skip_versions: bool = False) -> dict:
    """Canonical snapshot of an MDIB built by *scanning* the object sets (never through an index)."""
    descr = {}
    problems = []
    for d in mdib.descriptions.objects:
        if d.Handle in descr:
            problems.append(f'two descriptors with handle {d.Handle!r}')
        descr[d.Handle] = (d.parent_handle, canon(d, skip_versions))
    states = {}
    for s in mdib.states.objects:
        if s is None:
            problems.append('None in states table')
            continue
        if s.DescriptorHandle in states:
            problems.append(f'two single states for descriptor {s.DescriptorHandle!r}')
        states[s.DescriptorHandle] = canon(s, skip_versions)
    ctx = {}
    for s in mdib.context_states.objects:
        if s is None:
            problems.append('None in context_states table')
            continue
        if s.Handle in ctx:
            problems.append(f'two context states with handle {s.Handle!r}')
        ctx[s.Handle] = canon(s, skip_versions)
    return {'version': (mdib.mdib_version, mdib.sequence_id, mdib.instance_id), 'descr': descr, 'states': states,
            'ctx': ctx, 'problems': tuple(problems)}


def diff_mdib(a: dict, b: dict) -> list:
    out = []
    for part in ('version', 'descr', 'states', 'ctx', 'problems'):
        _diff(a[part], b[part], part, out, limit=8)
    return out


# ------------------------------------------------------------------------------------------- lookup audit

def audit_table(table, name: str = '') -> list[str]:
    """Compare every index of a MultiKeyLookup with a grouping recomputed from table.objects; list discrepancies."""
    from sdc11073 import multikey
    problems = []
    objects = list(table._objects)  # noqa: SLF001
    ids = {id(o) for o in objects}
    for idx_name, idx in table._idx_defs.items():  # noqa: SLF001
        expected = {}
        for obj in objects:
            try:
                key = idx._get_key_func(obj)  # noqa: SLF001
            except (TypeError, AttributeError):
                continue
            if key is None and not idx._index_none_values:  # noqa: SLF001
                continue
            keys = key if isinstance(idx, multikey.IndexDefinition1n) else [key]
            for k in keys:
                expected.setdefault(k, []).append(obj)
        actual = dict(idx.items())
        for k in expected.keys() | actual.keys():
            exp = sorted(id(o) for o in expected.get(k, []))
            act = sorted(id(o) for o in actual.get(k, []))
            if exp != act:
                problems.append(f'{name}.{idx_name}[{k!r}]: index has {len(act)} object(s) '
                                f'{[_label(o) for o in actual.get(k, [])]}, scan finds {len(exp)} '
                                f'{[_label(o) for o in expected.get(k, [])]}')
            elif k in actual and not actual[k]:
                problems.append(f'{name}.{idx_name}[{k!r}]: empty list kept in index')
    # back references
    for oid, refs in table._object_ids.items():  # noqa: SLF001
        if oid not in ids:
            problems.append(f'{name}._object_ids has an entry for an object that is not in the table')
            continue
        for ref in refs:
            lst = dict.get(ref.index_dict, ref.key)
            if lst is None or not any(id(o) == oid for o in lst):
                problems.append(f'{name}._object_ids: stale back reference key={ref.key!r}')
    for obj in objects:
        if id(obj) not in table._object_ids:  # noqa: SLF001
            problems.append(f'{name}: object {_label(obj)} in table but not in _object_ids')
    return problems


def _label(o):
    for a in ('Handle', 'DescriptorHandle', 'identifier_uuid'):
        v = getattr(o, a, None)
        if isinstance(v, str):
            return v
    return repr(o)[:40]


def audit_mdib(mdib, name: str = 'mdib') -> list[str]:
    out = []
    out += audit_table(mdib.descriptions, f'{name}.descriptions')
    out += audit_table(mdib.states, f'{name}.states')
    out += audit_table(mdib.context_states, f'{name}.context_states')
    return out


def audit_entities(mdib, name: str = 'mdib') -> list[str]:
    """The entity getters are look-ups, too: by_handle / by_parent_handle / by_node_type / items against a scan of the
    tables (descriptor with its parent, single state or context states, by canonical value)."""
    out = []
    descr = {d.Handle: d for d in mdib.descriptions.objects}
    single = {}
    for s in mdib.states.objects:
        single.setdefault(s.DescriptorHandle, []).append(s)
    multi = {}
    for s in mdib.context_states.objects:
        multi.setdefault(s.DescriptorHandle, {})[s.Handle] = s

    def scan_entity(h):
        d = descr[h]
        if d.is_context_descriptor:
            return ('multi', canon(d), d.parent_handle, {sh: canon(st) for sh, st in multi.get(h, {}).items()})
        st = single.get(h, [None])[0]
        return ('single', canon(d), d.parent_handle, None if st is None else canon(st))

    def got_entity(e):
        if e.is_multi_state:
            return ('multi', canon(e.descriptor), e.parent_handle, {sh: canon(st) for sh, st in e.states.items()})
        return ('single', canon(e.descriptor), e.parent_handle, None if e.state is None else canon(e.state))
    ents = mdib.entities
    try:
        items = dict(ents.items())
        if set(items) != set(descr):
            out.append(f'{name}.entities.items: handles {sorted(set(items) ^ set(descr))[:3]} differ from a scan')
        for h in descr:
            e = items.get(h)
            if e is not None and got_entity(e) != scan_entity(h):
                out.append(f'{name}.entities.items[{h!r}]: entity differs from the stored descriptor / state(s)')
                break
        for h in list(descr)[:8]:
            e = ents.by_handle(h)
            if e is None or got_entity(e) != scan_entity(h):
                out.append(f'{name}.entities.by_handle[{h!r}]: {"None" if e is None else "differs from the stored objects"}')
                break
        if ents.by_handle('vf_no_such_handle') is not None:
            out.append(f'{name}.entities.by_handle: returns an entity for an unknown handle')
        parents = {d.parent_handle for d in descr.values()}
        for p in parents:
            want = sorted(h for h, d in descr.items() if d.parent_handle == p)
            got = sorted(e.handle for e in ents.by_parent_handle(p))
            if got != want:
                out.append(f'{name}.entities.by_parent_handle[{p!r}]: returns {got[:4]}, a scan finds {want[:4]}')
                break
        types = {d.NODETYPE for d in descr.values()}
        for t in types:
            want = sorted(h for h, d in descr.items() if d.NODETYPE == t)
            got = sorted(e.handle for e in ents.by_node_type(t))
            if got != want:
                out.append(f'{name}.entities.by_node_type[{t.localname}]: returns {got[:4]}, a scan finds {want[:4]}')
                break
    except Exception as ex:  # noqa: BLE001
        from vf import run as R
        if not R.exc_in_library(ex):
            raise
        out.append(f'{name}.entities: getter raises {type(ex).__name__}: {str(ex)[:120]}')
    return out


def referential_problems(mdib) -> list[str]:
    """C02 'at all times' invariants, evaluated by scan."""
    out = []
    descr = {}
    for d in mdib.descriptions.objects:
        descr.setdefault(d.Handle, []).append(d)
    for h, ds in descr.items():
        if len(ds) > 1:
            out.append(f'duplicate-descriptor: {h!r}')
    seen_states = {}
    for s in list(mdib.states.objects) + list(mdib.context_states.objects):
        if s is None:
            out.append('none-in-state-table')
            continue
        ds = descr.get(s.DescriptorHandle)
        if not ds:
            out.append(f'state-without-descriptor: state of {s.DescriptorHandle!r} ({type(s).__name__})')
            continue
        if s.DescriptorVersion != ds[0].DescriptorVersion:
            out.append(f'state-descriptor-version: state of {s.DescriptorHandle!r} has DescriptorVersion '
                       f'{s.DescriptorVersion}, descriptor has {ds[0].DescriptorVersion}')
        if not s.is_multi_state:
            seen_states[s.DescriptorHandle] = seen_states.get(s.DescriptorHandle, 0) + 1
    for h, n in seen_states.items():
        if n > 1:
            out.append(f'multiple-single-states: {h!r} has {n}')
    for h, ds in descr.items():
        p = ds[0].parent_handle
        if p is not None and p not in descr:
            out.append(f'parent-missing: {h!r} has parent {p!r} which does not exist')
    return out
