"""Reflection-driven hypothesis strategies for every XMLTypeBase / ContainerBase class of the library.

An instance is described by a *spec* (plain JSON-able data):  {'cls': '<module>.<Class>', 'set': {prop: value-spec}}
`build(spec)` creates the instance.  Optional members are present or absent by draw (absent = never touched, so the
library's own default applies); mandatory members without a default are always set (construction, no rejection).
"""
from __future__ import annotations

import enum
import importlib
import inspect
from decimal import Decimal
from functools import lru_cache

from hypothesis import strategies as st
from lxml import etree

from sdc11073.mdib.containerbase import ContainerBase
from sdc11073.xml_types import isoduration
from sdc11073.xml_types import xml_structure as xs
from sdc11073.xml_types.basetypes import XMLTypeBase

from vf.gen import xmlvalues as xv

XML_TYPE_MODULES = ['sdc11073.xml_types.pm_types', 'sdc11073.xml_types.msg_types', 'sdc11073.xml_types.eventing_types',
                    'sdc11073.xml_types.wsd_types', 'sdc11073.xml_types.addressing_types',
                    'sdc11073.xml_types.dpws_types', 'sdc11073.xml_types.mex_types']
CONTAINER_MODULES = ['sdc11073.mdib.descriptorcontainers', 'sdc11073.mdib.statecontainers']

MAX_DEPTH = 3


@lru_cache(maxsize=None)
def all_classes() -> dict:
    out = {}
    for name in XML_TYPE_MODULES + CONTAINER_MODULES:
        mod = importlib.import_module(name)
        for attr in sorted(vars(mod)):
            obj = getattr(mod, attr)
            if isinstance(obj, type) and issubclass(obj, (XMLTypeBase, ContainerBase)) and obj.__module__ == name \
                    and obj.__name__ == attr:  # skip aliases
                out[f'{name}.{attr}'] = obj
    return out


def cls_name(cls) -> str:
    return f'{cls.__module__}.{cls.__name__}'


@lru_cache(maxsize=None)
def abstract_type_names() -> frozenset:
    """Local names of complex types declared abstract in the bundled schemas."""
    from sdc11073.namespaces import schema_folder
    names = set()
    for path in sorted(schema_folder.glob('*.xsd')):
        tree = etree.parse(str(path))
        for ct in tree.iter('{http://www.w3.org/2001/XMLSchema}complexType'):
            if ct.get('abstract') == 'true' and ct.get('name'):
                names.add(ct.get('name'))
    return frozenset(names)


def is_abstract(cls) -> bool:
    nt = getattr(cls, 'NODETYPE', None)
    if cls.__name__.startswith('Abstract'):
        return True
    return isinstance(nt, etree.QName) and nt.localname in abstract_type_names() and issubclass(cls, ContainerBase)


def new_instance(cls):
    """An instance as the library's own constructors / from_node would create it before reading values."""
    if issubclass(cls, ContainerBase):
        from sdc11073.mdib.descriptorcontainers import AbstractDescriptorContainer
        if issubclass(cls, AbstractDescriptorContainer):
            return cls('h', 'p')
        return cls(None)
    try:
        return cls()
    except TypeError:
        sig = inspect.signature(cls.__init__)
        args = []
        for p in list(sig.parameters.values())[1:]:
            if p.default is not inspect.Parameter.empty:
                break
            ann = str(p.annotation)
            args.append('' if ann.startswith('str') else None)
        return cls(*args)


@lru_cache(maxsize=None)
def instantiable(cls) -> bool:
    try:
        new_instance(cls)
    except Exception:  # noqa: BLE001
        return False
    return True


def props_of(cls) -> list:
    return new_instance(cls).sorted_container_properties()


# ------------------------------------------------------------------------------------------------ subclass choice

@lru_cache(maxsize=None)
def substitutions(value_class) -> tuple:
    """Concrete classes that may stand where `value_class` is declared (xsi:type substitution the readers know)."""
    out = []
    if issubclass(value_class, ContainerBase):
        from sdc11073.mdib import descriptorcontainers, statecontainers
        for cls in all_classes().values():
            if issubclass(cls, value_class) and not is_abstract(cls) and isinstance(getattr(cls, 'NODETYPE', None), etree.QName):
                getter = descriptorcontainers.get_container_class if cls.is_descriptor_container \
                    else statecontainers.get_container_class
                if getter(cls.NODETYPE) is cls:
                    out.append(cls)
        return tuple(out)
    from sdc11073.xml_types import pm_types
    if not is_abstract(value_class) and instantiable(value_class):
        out.append(value_class)
    base_nt = getattr(value_class, 'NODETYPE', None)
    if isinstance(base_nt, etree.QName) and issubclass(value_class, pm_types.PropertyBasedPMType):
        for cls in all_classes().values():
            if cls is value_class or not issubclass(cls, value_class) or is_abstract(cls):
                continue
            nt = getattr(cls, 'NODETYPE', None)
            if isinstance(nt, etree.QName) and nt != base_nt and instantiable(cls):
                try:
                    if pm_types._get_pmtypes_class(nt) is cls:  # noqa: SLF001
                        out.append(cls)
                except KeyError:
                    pass
    return tuple(out)


# ------------------------------------------------------------------------------------------------- per-property

SKIP = object()
_MEMBER_CACHE = {}  # (cls, member) -> (mandatory without default, has default value); fixed at first use

# (class name, property name) -> strategy for schema facets that the descriptor classes do not encode
def _overrides():
    return {
        ('*', 'Lang'): xv.language(),
        ('*', 'lang'): xv.language(),
    }


def _schema_filter(subs, child_ref):
    """Keep only classes whose named schema type is (derived from) the type the schema declares for this child."""
    if not isinstance(child_ref, str):
        return subs
    from vf.gen.xsdmodel import model
    m = model()
    out = []
    for c in subs:
        nt = getattr(c, 'NODETYPE', None)
        if isinstance(nt, etree.QName) and nt.text in m.types:
            if m.derives_from(nt.text, child_ref):
                out.append(c)
        else:
            out.append(c)
    return tuple(out)


def _enum_of(prop):
    return getattr(prop, 'enum_cls', None) or getattr(prop._converter, '_klass', None)  # noqa: SLF001


def prop_strategy(owner_cls, name, prop, depth, child_ref=None):  # noqa: PLR0911, PLR0912, C901
    """Strategy for the value-spec of one property, or SKIP."""
    ov = _overrides()
    if (owner_cls.__name__, name) in ov:
        return ov[(owner_cls.__name__, name)]
    if ('*', name) in ov and isinstance(prop, xs.StringAttributeProperty):
        return ov[('*', name)]
    if isinstance(prop, xs.CurrentTimestampAttributeProperty):
        return SKIP
    if isinstance(prop, (xs.HandleAttributeProperty, xs.HandleRefAttributeProperty)):
        return xv.handle()
    if isinstance(prop, (xs.CodeIdentifierAttributeProperty, xs.SymbolicCodeNameAttributeProperty,
                         xs.LocalizedTextRefAttributeProperty)):
        return xv.xml_text(1, 10)
    if isinstance(prop, xs.AnyURIAttributeProperty):
        return xv.any_uri()
    if isinstance(prop, xs.StringAttributeProperty):
        return xv.xml_text(0, 10)
    if isinstance(prop, xs.EnumAttributeProperty):
        return st.sampled_from([m.value for m in _enum_of(prop)])
    if isinstance(prop, xs.TimestampAttributeProperty):
        return xv.ms_timestamp()
    if isinstance(prop, xs.QualityIndicatorAttributeProperty):
        return xv.quality_indicator_str()
    if isinstance(prop, xs.DecimalAttributeProperty):
        return xv.decimal_str()
    if isinstance(prop, xs.DurationAttributeProperty):
        return xv.duration_us()
    if isinstance(prop, xs.VersionCounterAttributeProperty):
        return st.one_of(st.integers(0, 50), st.integers(0, 2 ** 63))
    if isinstance(prop, xs.UnsignedIntAttributeProperty):
        return st.one_of(st.integers(0, 100), st.integers(0, 2 ** 32 - 1))
    if isinstance(prop, xs.IntegerAttributeProperty):
        return st.one_of(st.integers(0, 100), st.integers(0, 2 ** 31 - 1))
    if isinstance(prop, xs.BooleanAttributeProperty):
        return st.booleans()
    if isinstance(prop, xs.QNameAttributeProperty):
        return xv.qname_pair()
    if isinstance(prop, xs.DecimalListAttributeProperty):
        return st.lists(xv.decimal_str(), max_size=4)
    if isinstance(prop, xs._AttributeListBase):  # noqa: SLF001  (handle ref lists)
        return st.lists(xv.handle(), max_size=3)
    # ---- elements
    if isinstance(prop, xs.NodeEnumQNameProperty):
        return st.sampled_from([[m.value.namespace, m.value.localname] for m in prop.enum_cls])
    if isinstance(prop, xs.NodeEnumTextProperty):
        return st.sampled_from([m.value for m in prop.enum_cls])
    if isinstance(prop, xs.AnyUriTextElement):
        return xv.any_uri()
    if isinstance(prop, xs.NodeStringProperty):
        return xv.xml_text(max(prop._min_length, 0), 12)  # noqa: SLF001
    if isinstance(prop, xs.NodeIntProperty):
        return st.integers(0, 2 ** 31 - 1)
    if isinstance(prop, xs.NodeDecimalProperty):
        return xv.decimal_str()
    if isinstance(prop, xs.NodeDurationProperty):
        return xv.duration_us()
    if isinstance(prop, xs.NodeTextQNameProperty):
        return xv.qname_pair()
    if type(prop) is xs.NodeTextProperty:
        from sdc11073.xml_types import dataconverters as dc
        conv = prop._converter  # noqa: SLF001
        if conv is dc.IntegerConverter or (isinstance(conv, type) and issubclass(conv, dc.IntegerConverter)):
            return st.integers(0, 2 ** 31 - 1)
        if conv is dc.StringConverter:
            return xv.xml_text(0, 10)
        return SKIP
    if isinstance(prop, xs.NodeTextQNameListProperty):
        return st.lists(xv.qname_pair(), min_size=1, max_size=3)
    if isinstance(prop, xs.NodeTextListProperty):
        return st.lists(xv.token(1, 8), min_size=1, max_size=3)
    if isinstance(prop, xs.ExtensionNodeProperty):
        return st.lists(xv.ext_element_spec(1), min_size=1, max_size=2)
    if isinstance(prop, xs.AnyEtreeNodeListProperty):
        return st.lists(xv.ext_element_spec(1), min_size=1, max_size=2)
    if isinstance(prop, xs.AnyEtreeNodeProperty):
        if prop._sub_element_name is None:  # noqa: SLF001
            return SKIP  # content model is a fixed schema element (msg:Mdib), not free-form
        return st.lists(xv.ext_element_spec(1), min_size=1, max_size=2)
    if isinstance(prop, xs.DateOfBirthProperty):
        return xv.xsd_date_string()
    if isinstance(prop, xs.SubElementTextListProperty):
        klass = getattr(prop._converter._element_converter, '_klass', (str,))  # noqa: SLF001
        if klass and klass[0] is int:
            return st.lists(st.integers(0, 1000), min_size=1, max_size=3)
        if klass and isinstance(klass[0], type) and issubclass(klass[0], enum.Enum):
            return st.lists(st.sampled_from([m.value for m in klass[0]]), min_size=1, max_size=3).map(
                lambda vs: [['__enum__', v] for v in vs])
        return st.lists(xv.xml_text(1, 8), min_size=1, max_size=3)
    if isinstance(prop, (xs.SubElementProperty, xs.ContainerProperty)):
        subs = _schema_filter(substitutions(prop.value_class), child_ref)
        if not subs or depth >= MAX_DEPTH + 3:
            return SKIP
        return st.sampled_from(subs).flatmap(lambda c: instance_spec(c, depth + 1, child_ref))
    if isinstance(prop, (xs.SubElementListProperty, xs.ContainerListProperty)):
        subs = _schema_filter(substitutions(prop.value_class), child_ref)
        if not subs or depth >= MAX_DEPTH + 3:
            return SKIP
        return st.lists(st.sampled_from(subs).flatmap(lambda c: instance_spec(c, depth + 1, child_ref)), min_size=1,
                        max_size=1 if depth >= MAX_DEPTH else (2 if depth else 3))
    return SKIP


def spec_to_value(prop, spec):  # noqa: PLR0911, PLR0912, C901
    if isinstance(prop, (xs.EnumAttributeProperty,)):
        return _enum_of(prop)(spec)
    if isinstance(prop, xs.NodeEnumQNameProperty):
        return prop.enum_cls(etree.QName(spec[0], spec[1]))
    if isinstance(prop, xs.NodeEnumTextProperty):
        return prop.enum_cls(spec)
    if isinstance(prop, xs.TimestampAttributeProperty):
        return spec / 1000
    if isinstance(prop, (xs.DecimalAttributeProperty, xs.NodeDecimalProperty)):
        return Decimal(spec)
    if isinstance(prop, (xs.DurationAttributeProperty, xs.NodeDurationProperty)):
        return spec / 1_000_000
    if isinstance(prop, (xs.QNameAttributeProperty, xs.NodeTextQNameProperty)):
        return _qname(spec[0], spec[1])
    if isinstance(prop, xs.DecimalListAttributeProperty):
        return [Decimal(s) for s in spec]
    if isinstance(prop, xs.NodeTextQNameListProperty):
        return [_qname(a, b) for a, b in spec]
    if isinstance(prop, xs.ExtensionNodeProperty):
        return xs.ExtensionLocalValue([xv.build_ext_element(s) for s in spec])
    if isinstance(prop, (xs.AnyEtreeNodeListProperty, xs.AnyEtreeNodeProperty)):
        return [xv.build_ext_element(s) for s in spec]
    if isinstance(prop, xs.DateOfBirthProperty):
        return isoduration.parse_date_time(spec)
    if isinstance(prop, (xs.SubElementProperty, xs.ContainerProperty)):
        return build(spec)
    if isinstance(prop, (xs.SubElementListProperty, xs.ContainerListProperty)):
        return [build(s) for s in spec]
    if isinstance(prop, xs.SubElementTextListProperty):
        klass = getattr(prop._converter._element_converter, '_klass', (str,))  # noqa: SLF001
        return [klass[0](v[1]) if isinstance(v, (list, tuple)) and v and v[0] == '__enum__' else v for v in spec]
    if isinstance(spec, (list, tuple)):
        return list(spec)
    return spec


def _qname(ns, local):
    """QName members are typed xml_utils.QName (the library's copyable subclass of lxml's QName; what its own readers
    and namespace helpers produce) - a plain lxml QName cannot be deep-copied."""
    from sdc11073 import xml_utils
    return xml_utils.QName(ns, local)


def is_mandatory_without_default(obj, name, prop) -> bool:
    if prop.is_optional:
        return False
    return prop.get_actual_value(obj) in (None, '', [])


def _xsd_key(q):
    if isinstance(q, etree.QName):
        return q.text
    return q


def top_type_ref(cls):
    """XSD type reference for a class used at top level (named complex type or type of the global element)."""
    from vf.gen.xsdmodel import model
    nt = getattr(cls, 'NODETYPE', None)
    if not isinstance(nt, etree.QName):
        return None
    m = model()
    if nt.text in m.types:
        return nt.text
    return m.type_of_element(nt.text)


def simple_strategy(prop, si):  # noqa: PLR0911, PLR0912, C901
    """Refine the strategy of a string / integer valued property with the facets of its schema simple type."""
    if si is None:
        return None
    stringish = isinstance(prop, (xs.StringAttributeProperty, xs.NodeStringProperty))
    intish = isinstance(prop, (xs.IntegerAttributeProperty, xs.NodeIntProperty))
    listish = isinstance(prop, (xs.NodeTextListProperty, xs.SubElementTextListProperty, xs._AttributeListBase)) \
        and not isinstance(prop, (xs.DecimalListAttributeProperty, xs.NodeTextQNameListProperty))  # noqa: SLF001
    base = si.base
    if stringish:
        if si.enums:
            return st.sampled_from(list(si.enums))
        if base == 'anyURI':
            return xv.any_uri()
        if base == 'language':
            return xv.language()
        if base in ('token', 'normalizedString', 'NCName', 'Name', 'NMTOKEN', 'ID', 'IDREF'):
            return xv.ncname(8) if base in ('NCName', 'ID', 'IDREF', 'Name', 'NMTOKEN') else xv.xml_text_trimmed(
                max(si.min_length, 1), 10)
        if base == 'dateTime':
            return xv.xsd_datetime_string()
        if base == 'union':
            enums = [e for m_ in si.union for e in m_.enums]
            if any(m_.base == 'anyURI' for m_ in si.union):
                return st.one_of(st.sampled_from(enums), xv.any_uri()) if enums else xv.any_uri()
            return st.sampled_from(enums) if enums else None
        if base in ('string',):
            return xv.xml_text(si.min_length, 10 + si.min_length)
        return None
    if intish:
        rng = {'unsignedInt': (0, 2 ** 32 - 1), 'unsignedLong': (0, 2 ** 63), 'unsignedShort': (0, 65535),
               'int': (0, 2 ** 31 - 1), 'long': (0, 2 ** 62), 'integer': (0, 2 ** 62), 'nonNegativeInteger': (0, 2 ** 62),
               'positiveInteger': (1, 2 ** 62), 'short': (0, 32767)}.get(base)
        if rng:
            return st.one_of(st.integers(rng[0], min(rng[1], rng[0] + 50)), st.integers(*rng))
        return None
    if isinstance(prop, xs.SubElementTextListProperty) and not intish:
        klass = getattr(prop._converter._element_converter, '_klass', (str,))  # noqa: SLF001
        if klass and klass[0] is str:
            item = {'language': xv.language(), 'anyURI': xv.any_uri()}.get(base)
            if item is None and base == 'string':
                item = xv.xml_text(max(si.min_length, 0), 8)
            if item is not None:
                return st.lists(item, min_size=1, max_size=3)
        return None
    if listish and si.list_item is not None:
        item = si.list_item
        if item.base == 'anyURI':
            return st.lists(xv.any_uri(), min_size=1, max_size=3)
        return None
    return None


def _lookup_member(tinfo, prop):
    """(AttrInfo|None, ChildInfo|None) for a property inside the schema type `tinfo`."""
    if tinfo is None:
        return None, None
    an = getattr(prop, '_attribute_name', None)
    if an is not None:
        return tinfo.attrs.get(_xsd_key(an)), None
    en = getattr(prop, '_sub_element_name', None)
    if en is not None:
        return None, tinfo.children.get(_xsd_key(en))
    return None, None


_PLAN_CACHE = {}
_SPEC_CACHE = {}


def _tref_key(tref):
    return tref if isinstance(tref, str) or tref is None else ('node', id(tref))


def _plan(cls, depth, tref):
    """Per (class, depth, schema type): the members that can be generated, with their strategy and obligations."""
    key = (cls, depth, _tref_key(tref))
    if key in _PLAN_CACHE:
        return _PLAN_CACHE[key]
    from vf.gen.xsdmodel import model
    m = model()
    tinfo = m.type_info(tref) if tref is not None else None
    obj = new_instance(cls)
    plan = []
    for name, prop in obj.sorted_container_properties():
        ainfo, cinfo = _lookup_member(tinfo, prop)
        child_ref = cinfo.type_ref if cinfo is not None else None
        strat = prop_strategy(cls, name, prop, depth, child_ref)
        if strat is SKIP:
            continue
        si = None
        if ainfo is not None:
            si = ainfo.simple
        elif cinfo is not None:
            si = m.simple(cinfo.type_ref) if isinstance(cinfo.type_ref, str) or (
                cinfo.type_ref is not None and cinfo.type_ref.tag.endswith('simpleType')) else None
            if si is None and cinfo.type_ref is not None:
                ti = m.type_info(cinfo.type_ref)
                si = ti.text if ti is not None else None
        elif tinfo is not None and getattr(prop, '_sub_element_name', 1) is None:
            si = tinfo.text  # the text of the node itself
        refined = simple_strategy(prop, si)
        if refined is not None:
            strat = refined
        schema_required = (ainfo is not None and ainfo.required) or (
            cinfo is not None and cinfo.min_occurs >= 1 and not cinfo.in_choice)
        ck = (cls, name)
        if ck not in _MEMBER_CACHE:
            actual = prop.get_actual_value(obj)
            usable = actual not in (None, '', []) and not isinstance(actual, (XMLTypeBase, ContainerBase))
            # a default that is itself an (incomplete) object does not count as a value
            _MEMBER_CACHE[ck] = ((not prop.is_optional) and not usable, usable)
        lib_mandatory, has_value = _MEMBER_CACHE[ck]
        is_list = isinstance(prop, (xs._ElementListProperty, xs._AttributeListBase))  # noqa: SLF001
        if is_list and not isinstance(prop, (xs.NodeTextListProperty, xs.NodeTextQNameListProperty)):
            lib_mandatory = False
        must = (schema_required and not has_value) or lib_mandatory
        nested = isinstance(prop, (xs.SubElementProperty, xs.ContainerProperty, xs.SubElementListProperty,
                                   xs.ContainerListProperty))
        if not must and nested and depth >= MAX_DEPTH:
            continue  # depth cut-off applies to optional members only
        mx = None
        if cinfo is not None and cinfo.max_occurs is not None and isinstance(prop, xs._ElementListProperty) \
                and not isinstance(prop, (xs.NodeTextListProperty, xs.NodeTextQNameListProperty,  # noqa: SLF001
                                          xs.AnyEtreeNodeListProperty)):
            mx = cinfo.max_occurs
        nonempty = strat.filter(lambda v: len(v) > 0) if is_list else strat
        plan.append((name, strat, nonempty, must, mx, is_list))
    _PLAN_CACHE[key] = plan
    return plan


def instance_spec(cls, depth=0, tref='__top__'):
    from vf.gen.xsdmodel import model
    m = model()
    if tref == '__top__':
        tref = top_type_ref(cls)
    else:
        nt = getattr(cls, 'NODETYPE', None)
        if isinstance(nt, etree.QName) and nt.text in m.types:
            tref = nt.text  # a class with a named type (possibly an xsi:type substitution) follows its own type
    key = (cls, depth, _tref_key(tref))
    if key not in _SPEC_CACHE:
        _SPEC_CACHE[key] = _instance_spec(cls, depth, tref)
    return _SPEC_CACHE[key]


@st.composite
def _instance_spec(draw, cls, depth, tref):
    chosen = {}
    for name, strat, nonempty, must, mx, is_list in _plan(cls, depth, tref):
        if must or draw(st.booleans()):
            value = draw(nonempty if (must and is_list) else strat)
            if mx is not None and isinstance(value, list) and len(value) > mx:
                value = value[:mx]
            chosen[name] = value
    return {'cls': cls_name(cls), 'set': chosen}


def build(spec):
    cls = all_classes()[spec['cls']]
    obj = new_instance(cls)
    props = dict(obj.sorted_container_properties())
    for name, vspec in spec['set'].items():
        setattr(obj, name, spec_to_value(props[name], vspec))
    fix = _SEMANTIC_FIXUPS.get(cls.__name__)
    if fix is not None:
        fix(obj)
    return obj


def _fix_sample_array_value(obj):
    """BICEPS: ApplyAnnotation/@AnnotationIndex refers to an existing Annotation, @SampleIndex to an existing sample
    (the schema cannot say so; a value that points nowhere is an invalid input, not a case of any property)."""
    n_ann = len(obj.Annotation or [])
    n_samples = len(obj.Samples or [])
    if not obj.ApplyAnnotation:
        return
    if n_ann == 0 or n_samples == 0:
        obj.ApplyAnnotation = []
        return
    for a in obj.ApplyAnnotation:
        a.AnnotationIndex = (a.AnnotationIndex or 0) % n_ann
        a.SampleIndex = (a.SampleIndex or 0) % n_samples


_SEMANTIC_FIXUPS = {'SampleArrayValue': _fix_sample_array_value}


def spec_stats(spec, acc=None) -> dict:
    """Counts used for the non-triviality rule: optional members present/absent, list members, substitutions."""
    acc = acc if acc is not None else {'present': 0, 'absent': 0, 'lists': 0, 'subst': 0, 'nested': 0}
    cls = all_classes()[spec['cls']]
    obj = new_instance(cls)
    for name, prop in obj.sorted_container_properties():
        if name in spec['set']:
            acc['present'] += 1
            v = spec['set'][name]
            if isinstance(prop, (xs.SubElementProperty, xs.ContainerProperty)) and isinstance(v, dict):
                acc['nested'] += 1
                if all_classes()[v['cls']] is not prop.value_class:
                    acc['subst'] += 1
                spec_stats(v, acc)
            elif isinstance(prop, (xs.SubElementListProperty, xs.ContainerListProperty)):
                acc['lists'] += 1
                for item in v:
                    if all_classes()[item['cls']] is not prop.value_class:
                        acc['subst'] += 1
                    spec_stats(item, acc)
            elif isinstance(v, (list, tuple)) and v:
                acc['lists'] += 1
        elif prop.is_optional:
            acc['absent'] += 1
    return acc


def concrete_classes() -> dict:
    return {n: c for n, c in all_classes().items() if not is_abstract(c) and instantiable(c)}


def uninstantiable_classes() -> list:
    return sorted(n for n, c in all_classes().items() if not c.__name__.startswith('Abstract') and not instantiable(c))


def nested_paths(obj, prefix=(), depth=0, max_depth=4):
    """Enumerate attribute paths to every mutable nested value reachable from a container (for mutation probes).

    Yields (path, kind) with kind in {'scalar', 'list', 'object'}; path elements are attribute names or list indices.
    """
    if depth > max_depth:
        return
    for name, prop in obj.sorted_container_properties():
        v = getattr(obj, name)
        p = (*prefix, name)
        if isinstance(v, (XMLTypeBase, ContainerBase)):
            yield p, 'object'
            yield from nested_paths(v, p, depth + 1, max_depth)
        elif isinstance(v, list):
            yield p, 'list'
            for i, item in enumerate(v):
                if isinstance(item, (XMLTypeBase, ContainerBase)):
                    yield from nested_paths(item, (*p, i), depth + 1, max_depth)
        else:
            yield p, 'scalar'


def _unused():  # keep linters quiet about imports used in type comments
    return enum
