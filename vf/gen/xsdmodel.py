"""A small model of the bundled XSD files: which attributes/children a complex type has, whether they are required,
and the facets of their simple types.  Used only to keep the *generators* inside the schema value space (the schema
validator itself remains the oracle)."""
from __future__ import annotations

from dataclasses import dataclass, field
from functools import lru_cache

from lxml import etree

XS = 'http://www.w3.org/2001/XMLSchema'


def _q(tag):
    return f'{{{XS}}}{tag}'


@dataclass
class SimpleInfo:
    base: str = 'string'  # local name of the builtin type at the root of the restriction chain
    min_length: int = 0
    enums: tuple = ()
    patterns: tuple = ()
    list_item: 'SimpleInfo | None' = None
    union: tuple = ()
    min_inclusive: str | None = None
    max_inclusive: str | None = None


@dataclass
class AttrInfo:
    simple: SimpleInfo
    required: bool


@dataclass
class ChildInfo:
    type_ref: object  # QName text '{ns}local' of a named type, or an lxml node of an anonymous type, or None
    min_occurs: int
    max_occurs: int | None
    in_choice: bool = False


@dataclass
class TypeInfo:
    attrs: dict = field(default_factory=dict)  # key: attribute name as lxml spells it ('Name' or '{ns}Name')
    children: dict = field(default_factory=dict)  # key: '{ns}local'
    text: SimpleInfo | None = None
    mixed_any: bool = False


class Model:
    def __init__(self):
        from sdc11073.namespaces import schema_folder
        self.types = {}
        self.elements = {}
        self.attributes = {}
        self.attr_groups = {}
        self.groups = {}
        for path in sorted(schema_folder.glob('*.xsd')):
            root = etree.parse(str(path)).getroot()
            tns = root.get('targetNamespace')
            qualified = root.get('elementFormDefault') == 'qualified'
            for node in root:
                if not isinstance(node.tag, str):
                    continue
                name = node.get('name')
                if name is None:
                    continue
                key = f'{{{tns}}}{name}'
                node.set('__tns', tns or '')
                node.set('__qualified', '1' if qualified else '0')
                if node.tag in (_q('complexType'), _q('simpleType')):
                    self.types[key] = node
                elif node.tag == _q('element'):
                    self.elements[key] = node
                elif node.tag == _q('attribute'):
                    self.attributes[key] = node
                elif node.tag == _q('attributeGroup'):
                    self.attr_groups[key] = node
                elif node.tag == _q('group'):
                    self.groups[key] = node
        self._type_cache = {}

    # ---------------------------------------------------------------------------------------------- helpers
    @staticmethod
    def _resolve(node, text):
        """prefix:local -> '{ns}local' using the in-scope namespaces of node."""
        if text is None:
            return None
        if ':' in text:
            prefix, local = text.split(':', 1)
            ns = node.nsmap.get(prefix)
        else:
            local = text
            ns = node.nsmap.get(None)
        return f'{{{ns}}}{local}'

    @staticmethod
    def _tns_of(node):
        n = node
        while n is not None:
            if n.get('__tns') is not None:
                return n.get('__tns'), n.get('__qualified') == '1'
            n = n.getparent()
        return None, True

    # ------------------------------------------------------------------------------------------ simple types
    def simple(self, ref) -> SimpleInfo:
        """ref: '{ns}local' or simpleType node."""
        if ref is None:
            return SimpleInfo()
        if isinstance(ref, str):
            if ref.startswith(f'{{{XS}}}'):
                return SimpleInfo(base=ref.split('}')[1])
            node = self.types.get(ref)
            if node is None:
                return SimpleInfo()
            if node.tag == _q('complexType'):
                ti = self.type_info(ref)
                return ti.text or SimpleInfo()
            return self.simple(node)
        node = ref
        restr = node.find(_q('restriction'))
        if restr is not None:
            base_ref = self._resolve(restr, restr.get('base'))
            inner = restr.find(_q('simpleType'))
            info = self.simple(base_ref if base_ref else inner)
            info = SimpleInfo(**{**info.__dict__})
            enums = tuple(e.get('value') for e in restr.findall(_q('enumeration')))
            if enums:
                info.enums = enums
            ml = restr.find(_q('minLength'))
            if ml is not None:
                info.min_length = max(info.min_length, int(ml.get('value')))
            pats = tuple(p.get('value') for p in restr.findall(_q('pattern')))
            if pats:
                info.patterns = info.patterns + pats
            for facet in ('minInclusive', 'maxInclusive'):
                f = restr.find(_q(facet))
                if f is not None:
                    setattr(info, 'min_inclusive' if facet == 'minInclusive' else 'max_inclusive', f.get('value'))
            return info
        lst = node.find(_q('list'))
        if lst is not None:
            item = self._resolve(lst, lst.get('itemType')) or lst.find(_q('simpleType'))
            return SimpleInfo(base='list', list_item=self.simple(item))
        uni = node.find(_q('union'))
        if uni is not None:
            members = [self.simple(self._resolve(uni, m)) for m in (uni.get('memberTypes') or '').split()]
            members += [self.simple(n) for n in uni.findall(_q('simpleType'))]
            return SimpleInfo(base='union', union=tuple(members))
        return SimpleInfo()

    # ----------------------------------------------------------------------------------------- complex types
    def type_info(self, ref) -> TypeInfo | None:
        if ref is None:
            return None
        key = ref if isinstance(ref, str) else id(ref)
        if key in self._type_cache:
            return self._type_cache[key]
        node = self.types.get(ref) if isinstance(ref, str) else ref
        if node is None:
            return None
        info = TypeInfo()
        self._type_cache[key] = info
        if node.tag == _q('simpleType'):
            info.text = self.simple(node)
            return info
        self._fill(node, info)
        return info

    def _fill(self, node, info: TypeInfo):
        for child in node:
            if not isinstance(child.tag, str):
                continue
            tag = child.tag
            if tag in (_q('complexContent'), _q('simpleContent')):
                for ext in child:
                    if ext.tag in (_q('extension'), _q('restriction')):
                        base = self._resolve(ext, ext.get('base'))
                        base_node = self.types.get(base)
                        if base_node is not None and base_node.tag == _q('complexType'):
                            base_info = self.type_info(base)
                            info.attrs.update(base_info.attrs)
                            if ext.tag == _q('extension') or tag == _q('simpleContent'):
                                info.children.update(base_info.children)
                            info.text = base_info.text
                        elif tag == _q('simpleContent'):
                            info.text = self.simple(base)
                        self._fill(ext, info)
            elif tag in (_q('sequence'), _q('choice'), _q('all')):
                self._particles(child, info, optional=False, in_choice=tag == _q('choice'))
            elif tag == _q('group'):
                g = self.groups.get(self._resolve(child, child.get('ref')))
                if g is not None:
                    self._fill(g, info)
            elif tag == _q('attribute'):
                self._attribute(child, info)
            elif tag == _q('attributeGroup'):
                g = self.attr_groups.get(self._resolve(child, child.get('ref')))
                if g is not None:
                    self._fill(g, info)
            elif tag == _q('anyAttribute'):
                pass

    def _particles(self, node, info, optional, in_choice):
        group_optional = optional or node.get('minOccurs') == '0'
        unbounded_group = node.get('maxOccurs') == 'unbounded'
        for child in node:
            if not isinstance(child.tag, str):
                continue
            if child.tag == _q('element'):
                ref = child.get('ref')
                tns, qualified = self._tns_of(child)
                if ref is not None:
                    key = self._resolve(child, ref)
                    decl = self.elements.get(key)
                    type_ref = None
                    if decl is not None:
                        type_ref = self.type_of_element(key)
                else:
                    form_q = child.get('form', 'qualified' if qualified else 'unqualified') == 'qualified'
                    key = f'{{{tns}}}{child.get("name")}' if form_q else child.get('name')
                    type_ref = self._resolve(child, child.get('type'))
                    if type_ref is None:
                        type_ref = child.find(_q('complexType'))
                        if type_ref is None:
                            type_ref = child.find(_q('simpleType'))
                mn = int(child.get('minOccurs', '1'))
                mx = child.get('maxOccurs', '1')
                if group_optional or in_choice:
                    mn = 0
                info.children[key] = ChildInfo(type_ref, mn, None if (mx == 'unbounded' or unbounded_group) else int(mx),
                                               in_choice)
            elif child.tag in (_q('sequence'), _q('choice'), _q('all')):
                self._particles(child, info, group_optional or in_choice, child.tag == _q('choice'))
            elif child.tag == _q('group'):
                g = self.groups.get(self._resolve(child, child.get('ref')))
                if g is not None:
                    for sub in g:
                        if isinstance(sub.tag, str) and sub.tag in (_q('sequence'), _q('choice'), _q('all')):
                            self._particles(sub, info, group_optional or in_choice, sub.tag == _q('choice'))
            elif child.tag == _q('any'):
                info.mixed_any = True

    def _attribute(self, node, info):
        ref = node.get('ref')
        if ref is not None:
            key = self._resolve(node, ref)
            decl = self.attributes.get(key)
            simple = SimpleInfo()
            if decl is not None:
                simple = self.simple(self._resolve(decl, decl.get('type')) or decl.find(_q('simpleType')))
            name = key
        else:
            name = node.get('name')
            tref = self._resolve(node, node.get('type'))
            simple = self.simple(tref if tref else node.find(_q('simpleType')))
        info.attrs[name] = AttrInfo(simple, node.get('use') == 'required')

    def derives_from(self, type_key: str, base_key: str) -> bool:
        seen = set()
        cur = type_key
        while cur is not None and cur not in seen:
            if cur == base_key:
                return True
            seen.add(cur)
            node = self.types.get(cur)
            if node is None:
                return False
            nxt = None
            for ext in node.iter(_q('extension'), _q('restriction')):
                if ext.getparent().getparent() is node:
                    nxt = self._resolve(ext, ext.get('base'))
                    break
            cur = nxt
        return False

    # -------------------------------------------------------------------------------------------- entry points
    def type_of_element(self, qname_text: str):
        decl = self.elements.get(qname_text)
        if decl is None:
            return None
        t = self._resolve(decl, decl.get('type'))
        if t is not None:
            return t
        inner = decl.find(_q('complexType'))
        return inner if inner is not None else decl.find(_q('simpleType'))


@lru_cache(maxsize=1)
def model() -> Model:
    return Model()
