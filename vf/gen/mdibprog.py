"""MDIB programs: provider operations as plain data + an interpreter.

A program is a list of ops (JSON-able lists).  Handles are concrete strings taken from the *inventory* of the base
MDIB (computed once per fixture) or from a fixed pool of handles for descriptors created by the program, so a program is
meaningful independent of run-time generated ids; an op whose target does not exist (any more) is skipped and counted.

ops
  ['state', kind, handle, spec, iface]          kind in metric|alert|component|operational|rt ; iface classic|entity
  ['state_multi', kind, [[handle, spec], ...], iface]      several states of one kind in one state transaction
  ['ctx_new', descr_handle, state_handle, spec, assoc, iface]
  ['ctx_update', state_handle, spec, assoc|None, iface]
  ['ctx_delete', state_handle]                  (entity interface: the state is taken out of the entity and written)
  ['set_location', {fac, poc, bed, bldng, flr, rm}]
  ['descr_update', handle, spec, iface]
  ['descr_create', pool_index, iface]
  ['descr_delete', handle, iface]
  ['descr_recreate', handle, iface]
  ['multi', [descriptor sub-ops: descr_update|descr_create|descr_delete|descr_recreate|tx_state]]
  ['empty', kind]
"""
from __future__ import annotations

import copy
from functools import lru_cache

from hypothesis import strategies as st

from vf.gen import types as T
from vf.gen import xmlvalues as xv

PROTECTED = {'DescriptorHandle', 'DescriptorVersion', 'StateVersion', 'Handle', 'ContextAssociation',
             'BindingMdibVersion', 'UnbindingMdibVersion', 'BindingStartTime', 'BindingEndTime'}
DESCR_PROTECTED = {'Handle', 'DescriptorVersion'}
STATE_KINDS = ('metric', 'alert', 'component', 'operational', 'rt')


def kind_of_state(s) -> str | None:
    if s.is_realtime_sample_array_metric_state:
        return 'rt'
    if s.is_metric_state:
        return 'metric'
    if s.is_alert_state:
        return 'alert'
    if s.is_component_state:
        return 'component'
    if s.is_operational_state:
        return 'operational'
    return None


TX = {'metric': 'metric_state_transaction', 'alert': 'alert_state_transaction',
      'component': 'component_state_transaction', 'operational': 'operational_state_transaction',
      'rt': 'rt_sample_state_transaction', 'context': 'context_state_transaction',
      'descriptor': 'descriptor_transaction'}


class Inventory:
    """Static description of a base MDIB: which handles exist, of which class, and where new children can go."""

    def __init__(self, mdib_xml: bytes):
        import sdc11073.definitions_sdc  # noqa: F401
        from sdc11073.mdib import ProviderMdib
        mdib = ProviderMdib.from_string(mdib_xml)
        self.states = {k: [] for k in STATE_KINDS}  # kind -> [(handle, state class name)]
        for s in sorted(mdib.states.objects, key=lambda x: x.DescriptorHandle):
            k = kind_of_state(s)
            if k:
                self.states[k].append((s.DescriptorHandle, T.cls_name(type(s))))
        self.context_descriptors = []  # (handle, state class name)
        self.descriptors = []  # (handle, class name, parent)
        self.channels, self.vmds, self.alert_systems, self.mds = [], [], [], []
        dm = mdib.data_model
        for d in sorted(mdib.descriptions.objects, key=lambda x: x.Handle):
            self.descriptors.append((d.Handle, T.cls_name(type(d)), d.parent_handle))
            if d.is_context_descriptor:
                self.context_descriptors.append((d.Handle, T.cls_name(dm.get_state_container_class(d.STATE_QNAME))))
            name = type(d).__name__
            if name == 'ChannelDescriptorContainer':
                self.channels.append(d.Handle)
            elif name == 'VmdDescriptorContainer':
                self.vmds.append(d.Handle)
            elif name == 'AlertSystemDescriptorContainer':
                self.alert_systems.append(d.Handle)
            elif name == 'MdsDescriptorContainer':
                self.mds.append(d.Handle)
        self.context_states = sorted(s.Handle for s in mdib.context_states.objects)
        self.deletable = [h for h, c, p in self.descriptors if c.split('.')[-1] in (
            'NumericMetricDescriptorContainer', 'StringMetricDescriptorContainer', 'EnumStringMetricDescriptorContainer',
            'ChannelDescriptorContainer', 'AlertConditionDescriptorContainer', 'LimitAlertConditionDescriptorContainer',
            'AlertSignalDescriptorContainer')]
        self.updatable = [(h, c) for h, c, p in self.descriptors if not c.endswith('ScoDescriptorContainer')]
        self.location_descriptors = [h for h, c in self.context_descriptors if 'Location' in c]
        # context descriptors (with all their context states) can be deleted and created again, too; the location
        # context stays (set_location needs it)
        self.deletable_context = [h for h, c in self.context_descriptors if 'Location' not in c]
        self.deletable += self.deletable_context[:2]
        self.pool = self._mk_pool()

    def _mk_pool(self):
        """Descriptors the program may create: (handle, descriptor class, parent handle)."""
        pool = []
        dc = 'sdc11073.mdib.descriptorcontainers.'
        for i, ch in enumerate(self.channels[:3]):
            pool.append((f'vf_nm_{i}', dc + 'NumericMetricDescriptorContainer', ch))
            pool.append((f'vf_sm_{i}', dc + 'StringMetricDescriptorContainer', ch))
        for i, vmd in enumerate(self.vmds[:2]):
            pool.append((f'vf_ch_{i}', dc + 'ChannelDescriptorContainer', vmd))
            pool.append((f'vf_nm_in_new_ch_{i}', dc + 'NumericMetricDescriptorContainer', f'vf_ch_{i}'))
        for i, als in enumerate(self.alert_systems[:2]):
            pool.append((f'vf_ac_{i}', dc + 'AlertConditionDescriptorContainer', als))
        return pool


@lru_cache(maxsize=8)
def inventory(fixture_name: str) -> Inventory:
    from vf import world
    return Inventory(world.fixture(fixture_name))


# ------------------------------------------------------------------------------------------------ strategies

def _state_spec(cls_name: str):
    return T.instance_spec(T.all_classes()[cls_name])


IFACE = st.sampled_from(['classic', 'entity'])


def st_location():
    part = st.one_of(st.none(), xv.xml_text_trimmed(1, 6), st.sampled_from(['a', 'b/c', 'ä ö', 'x?y=z&', '%41', '#1']))
    return st.fixed_dictionaries({'fac': part, 'poc': part, 'bed': part, 'bldng': part, 'flr': part, 'rm': part}).filter(
        lambda d: any(v for v in d.values()))  # documented: at least one element must be set


def st_op(inv: Inventory, kinds=None, descriptor_ops=True, context_ops=True, multi=True, kw_hold=True, aborts=True,  # noqa: C901, ARG001, PLR0913
          ctx_delete=True):
    """ctx_delete: removal of a context state through the entity interface.  The library documents that such a removal
    'cannot be communicated via notification': programs whose effect is observed through reports by a consumer (mirror
    properties) are generated without it."""
    opts = []
    for kind in (kinds or STATE_KINDS):
        if inv.states[kind]:
            opts.append(st.sampled_from(inv.states[kind]).flatmap(
                lambda hc, kind=kind: st.tuples(st.just('state'), st.just(kind), st.just(hc[0]), _state_spec(hc[1]),
                                                IFACE).map(list)))
    for kind in (kinds or STATE_KINDS):
        if len(inv.states[kind]) >= 2:  # noqa: PLR2004  several states of one kind in one transaction, any order
            one = st.sampled_from(inv.states[kind]).flatmap(lambda hc: st.tuples(st.just(hc[0]), _state_spec(hc[1])).map(list))
            opts.append(st.tuples(st.just('state_multi'), st.just(kind), st.lists(one, min_size=2, max_size=4), IFACE).map(list))
    if descriptor_ops:
        # state ops on pool metrics (exist only after creation; skipped otherwise)
        pool_metrics = [(h, c) for h, c, p in inv.pool if 'Metric' in c]
        if pool_metrics:
            opts.append(st.sampled_from(pool_metrics).flatmap(lambda hc: st.tuples(
                st.just('state'), st.just('metric'), st.just(hc[0]),
                _state_spec(hc[1].replace('descriptorcontainers', 'statecontainers').replace('Descriptor', 'State')),
                IFACE).map(list)))
    if context_ops and inv.context_descriptors:
        ctx_handles = st.sampled_from([f'vf_ctx_{i}' for i in range(4)] + inv.context_states[:4])
        assoc = st.sampled_from(['Assoc', 'Dis', 'Pre', 'No'])
        opts.append(st.sampled_from(inv.context_descriptors).flatmap(lambda hc: st.tuples(
            st.just('ctx_new'), st.just(hc[0]), st.sampled_from([f'vf_ctx_{i}' for i in range(4)]), _state_spec(hc[1]),
            assoc, IFACE).map(list)))
        classes = sorted({c for _, c in inv.context_descriptors})
        opts.append(st.tuples(st.just('ctx_update'), ctx_handles,
                              st.sampled_from(classes).flatmap(_state_spec), st.one_of(st.none(), assoc), IFACE).map(list))
        if ctx_delete:
            opts.append(st.tuples(st.just('ctx_delete'), ctx_handles).map(list))
        one = st.tuples(ctx_handles, st.sampled_from(classes).flatmap(_state_spec), st.one_of(st.none(), assoc)).map(list)
        opts.append(st.tuples(st.just('ctx_multi'), st.lists(one, min_size=2, max_size=3)).map(list))
        if inv.location_descriptors:
            opts.append(st.tuples(st.just('set_location'), st_location()).map(list))
    if descriptor_ops:
        d_ops = st_descriptor_subop(inv)
        opts.append(d_ops)
        if multi:
            opts.append(st.tuples(st.just('multi'), st.lists(st_multi_subop(inv), min_size=2, max_size=4)).map(list))
    opts.append(st.tuples(st.just('empty'), st.sampled_from(['metric', 'alert', 'context', 'descriptor'])).map(list))
    holdable = [hc for kind in (kinds or STATE_KINDS) for hc in inv.states[kind]]
    if context_ops:
        holdable = holdable + inv.context_descriptors[:3] * 3  # (context descriptor handle, its state class)
    if holdable and kw_hold:
        opts.append(st.tuples(st.just('hold'), st.integers(0, 2), st.sampled_from([h for h, _ in holdable])).map(list))
        opts.append(st.sampled_from(holdable).flatmap(lambda hc: st.tuples(
            st.just('write_held'), st.integers(0, 2), _state_spec(hc[1])).map(list)))
    return st.one_of(opts)


def st_descriptor_subop(inv: Inventory):
    opts = []
    if inv.updatable:
        opts.append(st.sampled_from(inv.updatable).flatmap(lambda hc: st.tuples(
            st.just('descr_update'), st.just(hc[0]), T.instance_spec(T.all_classes()[hc[1]]), IFACE).map(list)))
    pool_upd = [(h, c) for h, c, p in inv.pool]
    if pool_upd:
        opts.append(st.sampled_from(pool_upd).flatmap(lambda hc: st.tuples(
            st.just('descr_update'), st.just(hc[0]), T.instance_spec(T.all_classes()[hc[1]]), IFACE).map(list)))
        opts.append(st.tuples(st.just('descr_create'), st.integers(0, len(inv.pool) - 1), IFACE).map(list))
        opts.append(st.tuples(st.just('descr_create'), st.integers(0, len(inv.pool) - 1), IFACE).map(list))
    dels = inv.deletable + [h for h, c, p in inv.pool]
    if dels:
        opts.append(st.tuples(st.just('descr_delete'), st.sampled_from(dels), IFACE).map(list))
        opts.append(st.tuples(st.just('descr_recreate'), st.sampled_from(dels), IFACE).map(list))
    return st.one_of(opts)


def st_multi_subop(inv: Inventory):
    metric_like = inv.states['metric'] + inv.states['alert'] + inv.states['component']
    tx_state = st.sampled_from(metric_like).flatmap(lambda hc: st.tuples(
        st.just('tx_state'), st.just(hc[0]), _state_spec(hc[1])).map(list)) if metric_like else None
    subs = [st_descriptor_subop(inv).map(lambda op: op[:-1] + ['classic'])]
    if tx_state is not None:
        subs.append(tx_state)
    return st.one_of(subs)


def st_related_multi(inv: Inventory):
    """Multi-operation descriptor transactions on *related* objects (parent+child, descriptor+its state), any order."""
    shapes = []
    by_handle = {h: (c, p) for h, c, p in inv.descriptors}
    pool_idx = {h: i for i, (h, c, p) in enumerate(inv.pool)}
    # update parent + create child under it
    for h, c, p in inv.pool:
        if p in by_handle:
            pc = by_handle[p][0]
            shapes.append(st.tuples(
                st.tuples(st.just('descr_update'), st.just(p), T.instance_spec(T.all_classes()[pc]), st.just('classic')).map(list),
                st.just(['descr_create', pool_idx[h], 'classic'])).map(list))
        elif p in pool_idx:  # create parent + child in one transaction
            shapes.append(st.just([['descr_create', pool_idx[p], 'classic'], ['descr_create', pool_idx[h], 'classic']]))
    # two children of one existing parent created (and later deleted) in one transaction
    by_parent = {}
    for h, c, p in inv.pool:
        if p in by_handle:
            by_parent.setdefault(p, []).append(h)
    for p, hs in by_parent.items():
        if len(hs) >= 2:  # noqa: PLR2004
            shapes.append(st.just([['descr_create', pool_idx[hs[0]], 'classic'], ['descr_create', pool_idx[hs[1]], 'classic']]))
            shapes.append(st.just([['descr_delete', hs[0], 'classic'], ['descr_delete', hs[1], 'classic']]))
    siblings = {}
    for h in inv.deletable:
        if h in by_handle and by_handle[h][1] in by_handle:
            siblings.setdefault(by_handle[h][1], []).append(h)
    for p, hs in siblings.items():
        if len(hs) >= 2:  # noqa: PLR2004
            shapes.append(st.just([['descr_delete', hs[0], 'classic'], ['descr_delete', hs[1], 'classic']]))
    # a member of a subtree is touched (updated, its state written, deleted) by the transaction that deletes the subtree
    for h in inv.deletable[:10]:
        if h not in by_handle:
            continue
        c, p = by_handle[h]
        if p not in by_handle or p not in inv.deletable + inv.vmds:
            continue
        upd = st.tuples(st.just('descr_update'), st.just(h), T.instance_spec(T.all_classes()[c]), st.just('classic')).map(list)
        shapes.append(st.tuples(upd, st.just(['descr_delete', p, 'classic'])).map(list))
        state_cls = [sc for k in ('metric', 'alert', 'component') for hh, sc in inv.states[k] if hh == h]
        if state_cls:
            shapes.append(st.tuples(upd, st.tuples(st.just('tx_state'), st.just(h), _state_spec(state_cls[0])).map(list),
                                    st.just(['descr_delete', p, 'classic'])).map(list))
        gp = by_handle[p][1]
        if gp in by_handle and gp in inv.vmds:
            shapes.append(st.just([['descr_delete', h, 'classic'], ['descr_delete', gp, 'classic']]))
            shapes.append(st.tuples(upd, st.just(['descr_delete', gp, 'classic'])).map(list))
    # update descriptor + its state
    for kind in ('metric', 'alert', 'component'):
        for h, sc in inv.states[kind][:6]:
            if h in by_handle:
                shapes.append(st.tuples(
                    st.tuples(st.just('descr_update'), st.just(h), T.instance_spec(T.all_classes()[by_handle[h][0]]),
                              st.just('classic')).map(list),
                    st.tuples(st.just('tx_state'), st.just(h), _state_spec(sc)).map(list)).map(list))
    # delete child + update parent
    for h in inv.deletable[:6]:
        p = by_handle[h][1]
        if p in by_handle:
            shapes.append(st.tuples(
                st.just(['descr_delete', h, 'classic']),
                st.tuples(st.just('descr_update'), st.just(p), T.instance_spec(T.all_classes()[by_handle[p][0]]),
                          st.just('classic')).map(list)).map(list))
    if not shapes:
        return None
    return st.tuples(st.one_of(shapes), st.booleans()).map(
        lambda t: ['multi', list(reversed(t[0])) if t[1] and t[0][0][0] != 'descr_create' else list(t[0])])


def _kind_of_cls(cls_name: str) -> str:
    c = cls_name.split('.')[-1]
    if 'RealTimeSampleArray' in c:
        return 'rt'
    if 'Metric' in c:
        return 'metric'
    if 'Alert' in c:
        return 'alert'
    if 'Operation' in c:
        return 'operational'
    return 'component'


def st_block(inv: Inventory, **kw):
    """One op, or a delete ... re-create cycle of one handle with other ops in between."""
    op = st_op(inv, **kw)
    blocks = [op.map(lambda o: [o])] * 4
    if kw.get('descriptor_ops', True):
        dels = inv.deletable + [h for h, c, p in inv.pool]
        if dels:
            blocks.append(st.tuples(st.sampled_from(dels), IFACE, IFACE, st.lists(op, max_size=3)).map(
                lambda t: [['descr_delete', t[0], t[1]], *t[3], ['descr_recreate', t[0], t[2]]]))
            upd = dict(inv.updatable)
            cyc = [h for h in inv.deletable if h in upd]
            if cyc and kw.get('aborts', True):
                blocks.append(st.tuples(st.sampled_from(cyc), IFACE, IFACE, st.integers(0, 5)).flatmap(
                    lambda t: T.instance_spec(T.all_classes()[upd[t[0]]]).map(lambda spec: [
                        ['descr_update', t[0], spec, 'classic'], ['descr_delete', t[0], t[1]],
                        ['abort', ['descr_recreate', t[0], t[2]], t[3]], ['descr_recreate', t[0], t[2]]])))
    if kw.get('aborts', True):
        blocks.append(st.tuples(op, st.integers(0, 5)).map(lambda t: [['abort', t[0], t[1]]]))
    if kw.get('descriptor_ops', True):
        holdable = [hc for kind in STATE_KINDS for hc in inv.states[kind]]
        if holdable and kw.get('kw_hold', True):
            blocks.append(st.sampled_from(holdable).flatmap(lambda hc: st.tuples(
                st.integers(0, 2), _state_spec(hc[1]), _state_spec(hc[1]), _state_spec(hc[1]), st.booleans()).map(
                lambda t, hc=hc: [['hold', t[0], hc[0]],
                                  (['state', _kind_of_cls(hc[1]), hc[0], t[1], 'classic'] if t[4]
                                   else ['write_held', t[0], t[1]]),
                                  ['write_held', t[0], t[2]], ['write_held', t[0], t[3]]])))
        by_handle = {h: c for h, c, p in inv.descriptors}
        # a context entity is obtained, its descriptor (or a state) changes meanwhile, then the stale entity is written
        if kw.get('context_ops', True) and inv.context_descriptors and kw.get('kw_hold', True):
            blocks.append(st.sampled_from(inv.context_descriptors).flatmap(lambda hc: st.tuples(
                st.integers(0, 2), _state_spec(hc[1]), _state_spec(hc[1]), _state_spec(hc[1]), IFACE, st.booleans(),
                T.instance_spec(T.all_classes()[by_handle[hc[0]]]), IFACE).map(
                lambda t, hc=hc: ([['ctx_new', hc[0], 'vf_ctx_2', t[1], 'No', t[4]]] if t[5] else []) + [
                    ['hold', t[0], hc[0]], ['descr_update', hc[0], t[6], t[7]],
                    ['write_held', t[0], t[2]], ['write_held', t[0], t[3]]])))
        # one object through both interfaces: entity write first, then descriptor + state through the classic getters
        mixed = [(h, sc) for kind in ('metric', 'alert', 'component') for h, sc in inv.states[kind][:8] if h in by_handle]
        if mixed and kw.get('multi', True):
            blocks.append(st.sampled_from(mixed).flatmap(lambda hs: st.tuples(
                T.instance_spec(T.all_classes()[by_handle[hs[0]]]), T.instance_spec(T.all_classes()[by_handle[hs[0]]]),
                _state_spec(hs[1]), st.lists(op, max_size=2), st.sampled_from(['entity', 'entity', 'classic'])).map(
                lambda t, hs=hs: [['descr_update', hs[0], t[0], t[4]], *t[3],
                                  ['multi', [['descr_update', hs[0], t[1], 'classic'], ['tx_state', hs[0], t[2]]]]])))
        # a context descriptor that owns several context states is updated
        if kw.get('context_ops', True) and inv.context_descriptors:
            blocks.append(st.sampled_from(inv.context_descriptors).flatmap(lambda hc: st.tuples(
                _state_spec(hc[1]), _state_spec(hc[1]), st.sampled_from(['Assoc', 'Dis', 'No']), IFACE, IFACE,
                T.instance_spec(T.all_classes()[by_handle[hc[0]]]), IFACE, st.lists(op, max_size=2)).map(
                lambda t, hc=hc: [['ctx_new', hc[0], 'vf_ctx_0', t[0], 'Dis', t[3]], ['ctx_new', hc[0], 'vf_ctx_1', t[1], t[2], t[4]],
                                  *t[7], ['descr_update', hc[0], t[5], t[6]]])))
        # a context descriptor that owns several context states is deleted, created again and gets the states again
        if kw.get('context_ops', True) and inv.deletable_context:
            ctxd = [hc for hc in inv.context_descriptors if hc[0] in inv.deletable_context]
            blocks.append(st.sampled_from(ctxd).flatmap(lambda hc: st.tuples(
                st.lists(st.tuples(_state_spec(hc[1]), st.sampled_from(['Assoc', 'Dis', 'No']), IFACE), min_size=2, max_size=3),
                IFACE, IFACE, st.lists(op, max_size=2), st.booleans()).map(
                lambda t, hc=hc: [['ctx_new', hc[0], f'vf_ctx_{i}', x[0], x[1], x[2]] for i, x in enumerate(t[0])] + [
                    ['descr_delete', hc[0], t[1]], *t[3], ['descr_recreate', hc[0], t[2]]] + (
                    [['ctx_new', hc[0], 'vf_ctx_0', t[0][0][0], 'No', t[0][0][2]]] if t[4] else []))))
        # a context state is created, updated, removed through the entity interface and created again with its handle
        if kw.get('context_ops', True) and kw.get('ctx_delete', True) and inv.context_descriptors:
            blocks.append(st.sampled_from(inv.context_descriptors).flatmap(lambda hc: st.tuples(
                _state_spec(hc[1]), st.lists(_state_spec(hc[1]), min_size=1, max_size=3), IFACE, IFACE,
                st.sampled_from(['vf_ctx_1', 'vf_ctx_3']), st.lists(op, max_size=2)).map(
                lambda t, hc=hc: [['ctx_new', hc[0], t[4], t[0], 'No', t[2]]] + [
                    ['ctx_update', t[4], u, None, t[3]] for u in t[1]] + [['ctx_delete', t[4]], *t[5],
                                                                          ['ctx_new', hc[0], t[4], t[0], 'No', t[3]]])))
        rel = st_related_multi(inv)
        if rel is not None and kw.get('multi', True):
            blocks.append(rel.map(lambda o: [o]))
            blocks.append(st.tuples(st.integers(0, max(len(inv.pool) - 1, 0)), IFACE, rel).map(
                lambda t: [['descr_create', t[0], t[1]], t[2]]))
    return st.one_of(blocks)


def st_program(inv: Inventory, min_ops=1, max_ops=25, **kw):
    return st.lists(st_block(inv, **kw), min_size=min_ops, max_size=max(max_ops // 2, 1)).map(
        lambda blocks: [o for b in blocks for o in b][:max_ops])


# ------------------------------------------------------------------------------------------------ interpreter

class Crash(Exception):
    """The application exception raised inside a transaction body (aborted transactions)."""


class CrashCtl:
    def __init__(self, crash_at):
        self.crash_at = crash_at
        self.count = 0
        self.crashed = False
        self.modified = False
        self.handed = []

    def tick(self):
        if self.crash_at is not None and self.count == self.crash_at:
            self.crashed = True
            raise Crash(f'crash point {self.count}')
        self.count += 1


GETTERS = ('get_state', 'get_descriptor', 'get_context_state', 'mk_context_state')


class MgrProxy:
    """Wraps a transaction manager: every public method call is a crash point."""

    def __init__(self, mgr, ctl):
        object.__setattr__(self, '_mgr', mgr)
        object.__setattr__(self, '_ctl', ctl)

    def __getattr__(self, name):
        attr = getattr(self._mgr, name)
        if callable(attr) and not name.startswith('_'):
            ctl = self._ctl

            def wrapper(*a, **kw):
                r = attr(*a, **kw)
                ctl.modified = True
                if name in GETTERS and r is not None:
                    ctl.handed.append(r)  # an object the transaction handed out to the application
                ctl.tick()
                return r
            return wrapper
        return attr


class Skip(Exception):  # noqa: N818
    """The op is not applicable in the current MDIB (target missing / already present)."""


class Interp:
    def __init__(self, mdib, inv: Inventory, provider=None):
        self.mdib = mdib
        self.inv = inv
        self.provider = provider
        self.graveyard = {}  # handle -> (descriptor copy, [state copies]) saved at deletion time
        self.stats = {'skipped': 0, 'applied': 0}
        self.last_info = None
        self.tx_hook = None
        self.point_hook = None
        self.held = {}  # slot -> entity obtained earlier (possibly stale by now)
        self.nested_hook = None  # callable(obj) applied to every transaction-owned object after _apply (nested writes)

    # ---- helpers
    def _tx(self, kind):
        """Transaction context manager; C03 installs `tx_hook` to wrap the manager (crash points) ."""
        cm = getattr(self.mdib, TX[kind])()
        if self.tx_hook is None:
            return cm
        return self.tx_hook(cm)

    def _body_point(self):
        if self.point_hook is not None:
            self.point_hook()

    def _apply(self, obj, spec, protected):
        props = dict(obj.sorted_container_properties())
        for name, vspec in spec['set'].items():
            if name in protected or name not in props:
                continue
            setattr(obj, name, T.spec_to_value(props[name], vspec))
        if self.nested_hook is not None:
            self.nested_hook(obj)
        self._body_point()

    def _descr(self, handle):
        return self.mdib.descriptions.handle.get_one(handle, allow_none=True)

    def _pool_entry(self, handle):
        for h, c, p in self.inv.pool:
            if h == handle:
                return h, c, p
        return None

    # ---- single ops; each returns a dict describing what it intended to touch
    def run(self, op) -> dict:
        """Execute one op in its own transaction. Returns info dict {'op', 'skipped', 'touched', ...}."""
        name = op[0]
        info = {'op': name, 'skipped': False, 'touched': set(), 'created': set(), 'deleted': set()}
        try:
            getattr(self, f'_op_{name}')(op, info)
            self.stats['applied'] += 1
        except Skip:
            info['skipped'] = True
            self.stats['skipped'] += 1
        self.last_info = info
        return info

    def _op_empty(self, op, info):
        with self._tx(op[1]):
            self._body_point()

    def _op_state(self, op, info):
        _, kind, handle, spec, iface = op
        state = self.mdib.states.descriptor_handle.get_one(handle, allow_none=True)
        if state is None or T.cls_name(type(state)) != spec['cls']:
            raise Skip
        with self._tx(kind) as mgr:
            if iface == 'classic':
                st_ = mgr.get_state(handle)
                self._apply(st_, spec, PROTECTED)
            else:
                ent = self.mdib.entities.by_handle(handle)
                if ent is None:
                    raise Skip  # (a concurrent writer removed the descriptor after the look-up above)
                self._apply(ent.state, spec, PROTECTED)
                mgr.write_entity(ent)
        info['touched'].add(handle)

    def _op_state_multi(self, op, info):
        """Several states of one kind in one state transaction, in the given order."""
        _, kind, items, iface = op
        todo = []
        for handle, spec in items:
            state = self.mdib.states.descriptor_handle.get_one(handle, allow_none=True)
            if state is not None and T.cls_name(type(state)) == spec['cls'] and handle not in [t[0] for t in todo]:
                todo.append((handle, spec))
        if len(todo) < 2:  # noqa: PLR2004
            raise Skip
        with self._tx(kind) as mgr:
            for handle, spec in todo:
                if iface == 'classic':
                    self._apply(mgr.get_state(handle), spec, PROTECTED)
                else:
                    ent = self.mdib.entities.by_handle(handle)
                    if ent is None:
                        raise Skip  # (a concurrent writer removed the descriptor after the look-up above)
                    self._apply(ent.state, spec, PROTECTED)
                    mgr.write_entity(ent)
                info['touched'].add(handle)

    def _set_assoc(self, mgr, state, assoc):
        """Change the association the way an application does (BICEPS): a state that becomes associated / disassociated
        also gets its binding / unbinding MDIB version (the version this transaction will commit)."""
        pm = self.mdib.data_model.pm_types
        new = pm.ContextAssociation(assoc)
        if new != state.ContextAssociation:
            if new == pm.ContextAssociation.ASSOCIATED:
                state.BindingMdibVersion = self.mdib.mdib_version + 1
                state.UnbindingMdibVersion = None
            elif new == pm.ContextAssociation.DISASSOCIATED:
                state.UnbindingMdibVersion = self.mdib.mdib_version + 1
        state.ContextAssociation = new

    def _op_ctx_new(self, op, info):
        _, dhandle, shandle, spec, assoc, iface = op
        descr = self._descr(dhandle)
        if descr is None or self.mdib.context_states.handle.get_one(shandle, allow_none=True) is not None:
            raise Skip
        state_cls = self.mdib.data_model.get_state_container_class(descr.STATE_QNAME)
        if T.cls_name(state_cls) != spec['cls']:
            raise Skip
        with self._tx('context') as mgr:
            if iface == 'classic':
                st_ = mgr.mk_context_state(dhandle, shandle)
                self._apply(st_, spec, PROTECTED)
                self._set_assoc(mgr, st_, assoc)
            else:
                ent = self.mdib.entities.by_handle(dhandle)
                if ent is None:
                    raise Skip  # (a concurrent writer removed the descriptor after the look-up above)
                st_ = ent.new_state(shandle)
                self._apply(st_, spec, PROTECTED)
                self._set_assoc(mgr, st_, assoc)
                mgr.write_entity(ent, [shandle])
        info['touched'].add(shandle)

    def _op_ctx_update(self, op, info):
        _, shandle, spec, assoc, iface = op
        state = self.mdib.context_states.handle.get_one(shandle, allow_none=True)
        if state is None:
            raise Skip  # (members of the spec that the state's class does not have are ignored by _apply)
        with self._tx('context') as mgr:
            if iface == 'classic':
                st_ = mgr.get_context_state(shandle)
                self._apply(st_, spec, PROTECTED)
                if assoc:
                    self._set_assoc(mgr, st_, assoc)
            else:
                ent = self.mdib.entities.by_handle(state.DescriptorHandle)
                if ent is None or shandle not in ent.states:
                    raise Skip  # (a concurrent writer removed it after the look-up above)
                st_ = ent.states[shandle]
                self._apply(st_, spec, PROTECTED)
                if assoc:
                    self._set_assoc(mgr, st_, assoc)
                mgr.write_entity(ent, [shandle])
        info['touched'].add(shandle)

    def _op_ctx_delete(self, op, info):
        _, shandle = op
        state = self.mdib.context_states.handle.get_one(shandle, allow_none=True)
        if state is None:
            raise Skip
        with self._tx('context') as mgr:
            ent = self.mdib.entities.by_handle(state.DescriptorHandle)
            if ent is None or shandle not in ent.states:
                raise Skip  # (a concurrent writer removed it after the look-up above)
            del ent.states[shandle]
            self._body_point()
            mgr.write_entity(ent, [shandle])
        info['touched'].add(shandle)

    def _op_abort(self, op, info):
        """['abort', op, k]: run op but raise an application exception at the k-th point of the transaction body."""
        import contextlib
        ctl = CrashCtl(op[2])

        @contextlib.contextmanager
        def hook(cm):
            with cm as mgr:
                ctl.tick()
                yield MgrProxy(mgr, ctl)
                ctl.tick()
        saved = (self.tx_hook, self.point_hook)
        self.tx_hook, self.point_hook = hook, ctl.tick
        try:
            inner = {'op': op[1][0], 'skipped': False, 'touched': set(), 'created': set(), 'deleted': set()}
            getattr(self, f'_op_{op[1][0]}')(op[1], inner)
            # the crash point lies behind the end of the body: the op committed normally
            for k in ('touched', 'created', 'deleted'):
                info[k].update(inner[k])
            info['aborted'] = False
        except Crash:
            info['aborted'] = True
        finally:
            self.tx_hook, self.point_hook = saved

    def _op_hold(self, op, info):
        """Obtain an entity now and keep it (it may be stale when it is written later). No transaction."""
        _, slot, handle = op
        ent = self.mdib.entities.by_handle(handle)
        if ent is None:
            raise Skip
        self.held[slot] = ent
        raise Skip  # nothing committed: counts as not applied

    def _op_write_held(self, op, info):
        _, slot, spec = op
        ent = self.held.get(slot)
        if ent is None or self._descr(ent.handle) is None:
            raise Skip
        if ent.is_multi_state:
            return self._write_held_context(ent, slot, spec, info)
        if T.cls_name(type(ent.state)) != spec['cls']:
            raise Skip
        kind = kind_of_state(ent.state)
        if kind is None:
            raise Skip
        self._apply(ent.state, spec, PROTECTED)
        with self._tx(kind) as mgr:
            mgr.write_entity(ent)
        info['touched'].add(ent.handle)

    def _write_held_context(self, ent, slot, spec, info):
        """A (possibly stale) context entity is written: its first state that still exists is changed, or - if it has
        none - a new state is added to it."""
        state_cls = self.mdib.data_model.get_state_container_class(ent.descriptor.STATE_QNAME)
        if T.cls_name(state_cls) != spec['cls']:
            raise Skip
        existing = [h for h in sorted(ent.states) if self.mdib.context_states.handle.get_one(h, allow_none=True) is not None]
        if existing:
            shandle = existing[0]
            st_ = ent.states[shandle]
        else:
            shandle = f'vf_ctx_held_{slot}'
            if shandle in ent.states or self.mdib.context_states.handle.get_one(shandle, allow_none=True) is not None:
                raise Skip
            st_ = ent.new_state(shandle)
        self._apply(st_, spec, PROTECTED)
        with self._tx('context') as mgr:
            mgr.write_entity(ent, [shandle])
        info['touched'].add(shandle)

    def _op_ctx_multi(self, op, info):
        """Several context states (possibly of one descriptor) updated in one transaction (classic interface)."""
        todo = []
        for shandle, spec, assoc in op[1]:
            state = self.mdib.context_states.handle.get_one(shandle, allow_none=True)
            if state is not None and shandle not in [t[0] for t in todo]:
                todo.append((shandle, spec, assoc))
        if len(todo) < 2:
            raise Skip
        with self._tx('context') as mgr:
            for shandle, spec, assoc in todo:
                st_ = mgr.get_context_state(shandle)
                self._apply(st_, spec, PROTECTED)
                if assoc:
                    self._set_assoc(mgr, st_, assoc)
                info['touched'].add(shandle)

    def _op_set_location(self, op, info):
        from sdc11073.location import SdcLocation
        if not self.inv.location_descriptors:
            raise Skip
        loc = SdcLocation(**op[1])
        if self.provider is not None:
            self.provider.set_location(loc, publish_now=False,
                                       location_context_descriptor_handle=self.inv.location_descriptors[0])
        else:
            self.mdib.xtra.set_location(loc, location_context_descriptor_handle=self.inv.location_descriptors[0])
        info['touched'].add('<location>')

    # ---- descriptor ops (usable inside a shared transaction)
    def _d_update(self, mgr, op, info):
        _, handle, spec, iface = op
        descr = self._descr(handle)
        if descr is None or T.cls_name(type(descr)) != spec['cls'] or handle in mgr.descriptor_updates:
            raise Skip
        if iface == 'classic':
            d = mgr.get_descriptor(handle)
            self._apply(d, spec, DESCR_PROTECTED)
        else:
            ent = self.mdib.entities.by_handle(handle)
            if ent is None:
                raise Skip  # (a concurrent writer removed the descriptor after the look-up above)
            self._apply(ent.descriptor, spec, DESCR_PROTECTED)
            mgr.write_entity(ent)
        info['touched'].add(handle)

    def _d_create(self, mgr, op, info, created_in_tx):
        _, idx, iface = op
        handle, cname, parent = self.inv.pool[idx % len(self.inv.pool)]
        if self._descr(handle) is not None or handle in mgr.descriptor_updates:
            raise Skip
        if self._descr(parent) is None and parent not in created_in_tx:
            raise Skip
        if parent in mgr.descriptor_updates and mgr.descriptor_updates[parent].new is None:
            raise Skip  # parent is being deleted in this transaction
        dm = self.mdib.data_model
        dcls = T.all_classes()[cname]
        if iface == 'classic' or self._descr(parent) is None:
            # (entities are made by mdib.entities.new_entity, which needs the parent in the MDIB: a child of a descriptor
            # created in the same transaction goes through the classic interface)
            descr = dcls(handle, parent)
            self._fill_mandatory(descr)
            state = dm.mk_state_container(descr)
            mgr.add_descriptor(descr, state_container=state)
        else:
            ent = self.mdib.entities.new_entity(dcls.NODETYPE, handle, parent)
            self._fill_mandatory(ent.descriptor)
            mgr.write_entity(ent)
        created_in_tx.add(handle)
        info['created'].add(handle)

    def _fill_mandatory(self, descr):
        pm = self.mdib.data_model.pm_types
        if hasattr(descr, 'Unit') and descr.Unit is None:
            descr.Unit = pm.CodedValue('262688')
        if hasattr(type(descr), 'Resolution') and getattr(descr, 'Resolution', None) is None:
            from decimal import Decimal
            descr.Resolution = Decimal('0.1')
        if hasattr(type(descr), 'MetricCategory') and descr.get_actual_value('MetricCategory') is None:
            descr.MetricCategory = pm.MetricCategory.MEASUREMENT
        if hasattr(type(descr), 'MetricAvailability') and descr.get_actual_value('MetricAvailability') is None:
            descr.MetricAvailability = pm.MetricAvailability.CONTINUOUS
        if hasattr(type(descr), 'Kind') and descr.get_actual_value('Kind') is None:
            descr.Kind = pm.AlertConditionKind.TECHNICAL
        if hasattr(type(descr), 'Priority') and descr.get_actual_value('Priority') is None:
            descr.Priority = pm.AlertConditionPriority.LOW

    def _d_delete(self, mgr, op, info):
        _, handle, iface = op
        descr = self._descr(handle)
        if descr is None or handle in mgr.descriptor_updates:
            raise Skip
        subtree = self.mdib.get_all_descriptors_in_subtree(descr)
        for d in subtree:
            states = [self.mdib.states.descriptor_handle.get_one(d.Handle, allow_none=True)]
            self.graveyard[d.Handle] = (copy.deepcopy(d), [copy.deepcopy(s) for s in states if s is not None])
        if iface == 'classic':
            mgr.remove_descriptor(handle)
        else:
            mgr.remove_entity(self.mdib.entities.by_handle(handle))
        info['deleted'].update(d.Handle for d in subtree)

    def _d_recreate(self, mgr, op, info, created_in_tx):
        _, handle, iface = op
        if handle not in self.graveyard or self._descr(handle) is not None or handle in mgr.descriptor_updates:
            raise Skip
        descr, states = self.graveyard[handle]
        descr = copy.deepcopy(descr)
        parent = descr.parent_handle
        if parent is not None and self._descr(parent) is None and parent not in created_in_tx:
            raise Skip
        if parent in mgr.descriptor_updates and mgr.descriptor_updates[parent].new is None:
            raise Skip
        if descr.is_context_descriptor:  # comes back without context states
            if iface == 'classic':
                mgr.add_descriptor(descr)
            else:
                from sdc11073.mdib import mdibbase
                mgr.write_entity(mdibbase.MultiStateEntity(self.mdib, descr, []))
            created_in_tx.add(handle)
            info['created'].add(handle)
            return
        state = copy.deepcopy(states[0]) if states else self.mdib.data_model.mk_state_container(descr)
        state.descriptor_container = descr
        if iface == 'classic':
            mgr.add_descriptor(descr, state_container=state)
        else:
            from sdc11073.mdib import mdibbase
            mgr.write_entity(mdibbase.Entity(self.mdib, descr, state))
        created_in_tx.add(handle)
        info['created'].add(handle)

    def _tx_state(self, mgr, op, info):
        _, handle, spec = op
        if handle not in mgr.descriptor_updates or mgr.descriptor_updates[handle].new is None:
            raise Skip
        if mgr.descriptor_updates[handle].old is None:
            raise Skip  # created in this transaction: its state was handed in with the descriptor
        state = self.mdib.states.descriptor_handle.get_one(handle, allow_none=True)
        if state is None or T.cls_name(type(state)) != spec['cls']:
            raise Skip
        if mgr.get_state_transaction_item(handle) is not None:
            raise Skip
        st_ = mgr.get_state(handle)
        self._apply(st_, spec, PROTECTED)
        info['touched'].add(handle)

    def _descr_dispatch(self, mgr, op, info, created_in_tx):
        name = op[0]
        if name == 'descr_update':
            self._d_update(mgr, op, info)
        elif name == 'descr_create':
            self._d_create(mgr, op, info, created_in_tx)
        elif name == 'descr_delete':
            self._d_delete(mgr, op, info)
        elif name == 'descr_recreate':
            self._d_recreate(mgr, op, info, created_in_tx)
        elif name == 'tx_state':
            self._tx_state(mgr, op, info)

    def _single_descr(self, op, info):
        with self._tx('descriptor') as mgr:
            self._descr_dispatch(mgr, op, info, set())

    _op_descr_update = _single_descr
    _op_descr_create = _single_descr
    _op_descr_delete = _single_descr
    _op_descr_recreate = _single_descr

    def _op_multi(self, op, info):
        applied = 0
        with self._tx('descriptor') as mgr:
            created = set()
            for sub in op[1]:
                try:
                    self._descr_dispatch(mgr, sub, info, created)
                    applied += 1
                except Skip:
                    pass
        info['multi_applied'] = applied
        if applied == 0:
            info['skipped'] = True


def program_classes(prog) -> set:
    out = set()
    for op in prog:
        out.add(op[0] if op[0] != 'state' else f'state:{op[1]}')
        if op[0] == 'multi':
            out.update('multi:' + s[0] for s in op[1])
    return out
