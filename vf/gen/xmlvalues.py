"""Hypothesis strategies for XML-legal strings and the xsd scalar value spaces used by the library."""
from __future__ import annotations

from hypothesis import strategies as st

# XML 1.0 Char without the C0 controls; \t \n \r are legal but normalised by XML processors, so they are left out
# (their fate is decided by the XML parser, not by the library under test).
_XML_SAFE = st.characters(min_codepoint=0x20, max_codepoint=0x10FFFF, blacklist_categories=('Cs',),
                          blacklist_characters='￾￿')
_COMMON = st.sampled_from(list('abcXYZ019 _-.:/?#&=+%;<>"\'äßЖ中\U0001F600é~@!$*(),[]{}|^`\\'))


def xml_text(min_size=0, max_size=12):
    """String over XML-legal characters (biased towards markup-significant and non-ASCII ones)."""
    return st.text(st.one_of(_COMMON, _XML_SAFE), min_size=min_size, max_size=max_size)


def xml_text_trimmed(min_size=1, max_size=12):
    """Like xml_text, without leading/trailing blanks (for values that live in whitespace-collapsed contexts)."""
    return xml_text(min_size, max_size).map(lambda s: s.strip(' ')).filter(lambda s: len(s) >= min_size)


_NAME_START = 'abcdefghijklmnopqrstuvwxyzABCDEFGHIJKLMNOPQRSTUVWXYZ_'
_NAME_CHARS = _NAME_START + '0123456789-.'


def ncname(max_size=8):
    return st.builds(lambda a, b: a + b, st.sampled_from(_NAME_START), st.text(_NAME_CHARS, max_size=max_size - 1))


def token(min_size=1, max_size=10):
    """A word without whitespace (item of an xsd:list), XML-legal, may contain non-ASCII."""
    chars = st.one_of(st.sampled_from(list('abcXYZ019_-.:/#&=+%;<>"\'äЖ中\U0001F600~@')),
                      st.characters(min_codepoint=0x21, max_codepoint=0x2FFF, blacklist_categories=('Cs', 'Zs', 'Zl', 'Zp', 'Cc'),
                                    blacklist_characters='\x85\xa0     　﻿'))
    return st.text(chars, min_size=min_size, max_size=max_size).filter(lambda s: len(s.split()) == 1 and s.split()[0] == s)


def handle():
    return st.one_of(token(1, 10), st.sampled_from(['h1', 'mds0', 'a.b.c', '0', 'x' * 30]))


def language():
    part = st.text('abcdefghijklmnopqrstuvwxyzABCDEFGHIJKLMNOPQRSTUVWXYZ', min_size=1, max_size=8)
    sub = st.text('abcdefghijklmnopqrstuvwxyzABCDEFGHIJKLMNOPQRSTUVWXYZ0123456789', min_size=1, max_size=8)
    return st.builds(lambda a, bs: '-'.join([a, *bs]), part, st.lists(sub, max_size=2))


def any_uri():
    seg = st.text('abcdefghijklmnopqrstuvwxyzABCXYZ0123456789-._~%41', min_size=0, max_size=6).filter(
        lambda s: '%' not in s.replace('%41', ''))
    return st.one_of(
        st.builds(lambda sch, host, segs: f'{sch}://{host}' + ''.join('/' + s for s in segs),
                  st.sampled_from(['http', 'https', 'urn-x', 'sdc.ctxt.loc']),
                  st.sampled_from(['example.org', '127.0.0.1:8080', 'host-1', 'a.b']), st.lists(seg, max_size=3)),
        st.builds(lambda a, b: f'urn:{a}:{b}', ncname(6), st.text('abcdef0123456789-', min_size=1, max_size=12)),
        st.sampled_from(['urn:uuid:6b1e9c9e-0d3a-4b7c-9b1e-2f5f3a1c0d11', 'http://www.w3.org/2005/08/addressing/anonymous',
                         'relative/path', 'x']))


def ms_timestamp():
    """Milliseconds since epoch as int (the library value is ms/1000 as float)."""
    return st.one_of(st.integers(0, 2 ** 41), st.integers(1_600_000_000_000, 1_900_000_000_000), st.integers(0, 5000))


def decimal_str(lo=None, hi=None):
    """xsd:decimal inside the 18 digit value space, as canonical string."""
    def build(sign, coeff, exp):
        from decimal import Decimal
        d = Decimal((sign, tuple(int(c) for c in str(coeff)), exp))
        return format(d, 'f')
    s = st.builds(build, st.integers(0, 1), st.one_of(st.integers(0, 999), st.integers(0, 10 ** 9), st.integers(0, 10 ** 17)),
                  st.integers(-9, 0)).filter(lambda x: len(x.replace('-', '').replace('.', '').lstrip('0')) <= 17)
    return s


def quality_indicator_str():
    return st.builds(lambda n, k: format(__import__('decimal').Decimal(n) / (10 ** k), 'f') if n <= 10 ** k else '1',
                     st.integers(0, 1000), st.integers(0, 3)).map(lambda s: s if float(s) <= 1 else '1')


def duration_us():
    """Duration as integer microseconds (library value is us/1e6 seconds as float)."""
    return st.one_of(st.integers(0, 10 ** 7), st.integers(0, 3600 * 10 ** 6 * 100).map(lambda x: x - x % 1000),
                     st.sampled_from([0, 1, 999_999, 1_000_000, 60_000_000, 3_600_000_000]))


QNAME_POOL = [
    ('http://standards.ieee.org/downloads/11073/11073-10207-2017/participant', 'MdsDescriptor'),
    ('http://standards.ieee.org/downloads/11073/11073-20702-2016', 'MedicalDevice'),
    ('http://docs.oasis-open.org/ws-dd/ns/dpws/2009/01', 'Device'),
    ('http://example.org/verif/ns1', 'Alpha'),
    ('http://example.org/verif/ns2', 'beta-2'),
    ('http://example.org/verif/ns1', 'Gamma'),
]


def qname_pair():
    return st.sampled_from(QNAME_POOL)


def xsd_date_string():
    """Canonical lexical xsd:dateTime | date | gYearMonth | gYear (subset of the C18 generator)."""
    from vf.props import c18
    return c18.st_datetime_case().filter(lambda c: 1 <= c['year'] <= 9999 and c['day'] <= 28).map(c18._dt_string)  # noqa: SLF001  (XSD 1.0: no year 0)


def xsd_datetime_string():
    from vf.props import c18
    return c18.st_datetime_case().filter(lambda c: c['kind'] == 'dateTime' and 1 <= c['year'] <= 9999 and c['day'] <= 28).map(c18._dt_string)  # noqa: SLF001


def ext_element_spec(depth=2):
    """Plain-data description of a small foreign-namespace element: [tag_ns, local, {attr: value}, text, children]."""
    leaf = st.tuples(st.sampled_from(['http://example.org/verif/ext', 'urn:verif:e2']), ncname(6),
                     st.dictionaries(ncname(5), xml_text(0, 6), max_size=2), xml_text_trimmed(0, 8) | st.just(''),
                     st.just(()))
    if depth <= 0:
        return leaf
    return st.one_of(leaf, st.tuples(st.sampled_from(['http://example.org/verif/ext']), ncname(6),
                                     st.dictionaries(ncname(5), xml_text(0, 6), max_size=2), st.just(''),
                                     st.lists(ext_element_spec(depth - 1), min_size=1, max_size=2).map(tuple)))


def build_ext_element(spec):
    from lxml import etree
    ns, local, attrib, text, children = spec
    e = etree.Element(etree.QName(ns, local), nsmap={'vx': ns})
    for k, v in sorted(dict(attrib).items()):
        e.set(k, v)
    if children:
        for c in children:
            e.append(build_ext_element(c))
    elif text:
        e.text = text
    return e
