"""Socket-less pieces of WS-Discovery: a NetworkingThread created without sockets, enumerating stand-ins for
`random` / `time`, a recording networking thread for WSDiscovery and an inline driver of the read-queue loop."""
from __future__ import annotations

import collections
import logging
import queue
import threading


class FixedRandom:
    """Stand-in for the `random` module: returns the planned values in order (clamped to the requested range)."""

    def __init__(self, *values):
        self.values = list(values)
        self.calls = []

    def _next(self, lo, hi):
        v = self.values.pop(0) if self.values else lo
        self.calls.append((lo, hi, v))
        return min(max(v, lo), hi)

    def randint(self, a, b):
        return self._next(a, b)

    def randrange(self, a, b=None, step=1):  # noqa: ARG002
        if b is None:
            a, b = 0, a
        return self._next(a, b - 1)

    def uniform(self, a, b):
        return float(self._next(a, b))

    def random(self):
        return 0.0

    def choice(self, seq):
        return seq[0]


class SteppingTime:
    """Stand-in for the `time` module: sleep() advances the clock, nothing waits."""

    def __init__(self, now=1000.0):
        self.now = now
        self.sleeps = []

    def time(self):
        return self.now

    def monotonic(self):
        return self.now

    def perf_counter(self):
        return self.now

    def sleep(self, dt):
        self.sleeps.append(dt)
        self.now += dt


class FakeSock:
    def __init__(self, clock):
        self.sent = []  # (time, data, addr)
        self._clock = clock

    def sendto(self, data, addr):
        self.sent.append((self._clock.time(), data, addr))

    def getsockname(self):
        return ('127.0.0.1', 1)


class FakeSelector:
    def __init__(self, sock):
        self._key = collections.namedtuple('Key', 'fileobj')(sock)  # noqa: PYI024

    def select(self, timeout=None):  # noqa: ARG002
        return [(self._key, 1)]


def mk_networking_thread(wsd=None):
    """NetworkingThread instance with queues and bookkeeping but without sockets or threads."""
    from sdc11073.wsdiscovery import networkingthread as nt_mod
    nt = nt_mod.NetworkingThread.__new__(nt_mod.NetworkingThread)
    nt._my_ip_address = '127.0.0.1'  # noqa: SLF001
    nt._wsd = wsd  # noqa: SLF001
    nt._logger = logging.getLogger('vf.wsd')  # noqa: SLF001
    nt.multicast_port = 3702
    nt._recv_thread = nt._qread_thread = nt._send_thread = None  # noqa: SLF001
    nt._quit_recv_event = threading.Event()  # noqa: SLF001
    nt._quit_send_event = threading.Event()  # noqa: SLF001
    nt._send_queue = queue.PriorityQueue(10000)  # noqa: SLF001
    nt._read_queue = queue.Queue(10000)  # noqa: SLF001
    nt._known_message_ids = collections.deque(maxlen=200)  # noqa: SLF001
    return nt


class DrainingQueue:
    """Read queue for _run_q_read: hands out the datagrams, then ends the loop."""

    def __init__(self, items, quit_event):
        self._items = collections.deque(items)
        self._quit = quit_event

    def get(self, timeout=None):  # noqa: ARG002
        if not self._items:
            self._quit.set()
            raise queue.Empty
        return self._items.popleft()

    def put(self, item):
        self._items.append(item)


def run_q_read(nt, datagrams):
    """Feed (addr, bytes) datagrams through NetworkingThread._run_q_read inline."""
    nt._quit_recv_event.clear()  # noqa: SLF001
    nt._read_queue = DrainingQueue(datagrams, nt._quit_recv_event)  # noqa: SLF001
    nt._run_q_read()  # noqa: SLF001


class RecordingNetworkingThread:
    """What WSDiscovery needs of its networking thread; records outbound messages."""

    def __init__(self, forward=None):
        self.outbound = []  # (created_message, addr, port, repeat_params)
        self.forward = forward  # a (socket-less) real NetworkingThread that also gets the message (its bookkeeping runs)

    def add_outbound_message(self, msg, addr, port, repeat_params):
        self.outbound.append((msg, addr, port, repeat_params))
        if self.forward is not None:
            self.forward.add_outbound_message(msg, addr, port, repeat_params)

    def __getattr__(self, name):
        # anything else WSDiscovery asks of its networking thread goes to the real (socket-less) one
        if self.forward is not None and not name.startswith('__'):
            return getattr(self.forward, name)
        raise AttributeError(name)

    def start(self):
        pass

    def schedule_stop(self):
        pass

    def join(self):
        pass
