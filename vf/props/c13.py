"""C13 - request handling is total: any input gets a response; no hang, crash or XXE.

Everything runs in-process through the real DispatchingRequestHandler (fake socket) into the real dispatchers of a live
provider and a live consumer.
Part framing  generated HTTP framing (request line x headers x body framing x content coding), peer closes after sending
Part soap     every valid request type recorded from a real session, mutated structure-aware (delete / duplicate /
              rename element or attribute, wrong action, wrong path, huge and negative numbers, DOCTYPE with internal and
              external entities, truncation, wrong encodings)
"""
from __future__ import annotations

import os
import re
import tempfile
from decimal import Decimal

from hypothesis import strategies as st
from lxml import etree

from vf import canon as C
from vf import loopback as L
from vf import memhttp as M
from vf import run as R
from vf import world as W

P = 'C13'
META = {
    'level': 'exploration',
    'rule': ('part framing: method x path x version x Content-Length (absent, exact, short, long, non-numeric, negative) x '
             'chunked bodies (well-formed, truncated, negative / huge / non-hex sizes, extensions) x Content-Encoding '
             '(supported, unsupported, corrupt) over bodies taken from the recorded corpus or random bytes; part soap: '
             'structure-aware mutations of every recorded request type for provider and consumer endpoints; non-trivial = '
             'the case reached the dispatcher (parsed as XML) or exercised a non-default framing path; distinct by case'),
    'assumptions': ['the peer closes its side after sending (reads at end of stream return b""); a handler that keeps '
                    'reading at end of stream more than 64 times counts as spinning',
                    'kernel sockets and their timeouts are not in the loop'],
}

FIXTURE = 'mdib_two_mds.xml'
S12 = 'http://www.w3.org/2003/05/soap-envelope'
_STATE = {}


def session():
    """One live provider + consumer per process and the corpus of valid requests recorded from a real session."""
    if 's' in _STATE:
        return _STATE['s']
    from vf.props import c01
    c01.park_role_workers()
    L.reset_network()
    W.quiet_logging()
    world = W.World(W.fixture(FIXTURE))
    world.inline_sco()
    consumer, cmdib = world.add_consumer(init_mdib=True)
    # exercise the request types
    mdib = world.mdib
    h = sorted(s.DescriptorHandle for s in mdib.states.objects if s.is_metric_state and not s.is_realtime_sample_array_metric_state)[0]
    with mdib.metric_state_transaction() as mgr:
        mgr.get_state(h).ActivationState = mdib.data_model.pm_types.ComponentActivation.OFF
    consumer.client('Get').get_md_state([h])
    consumer.client('Get').get_md_description()
    consumer.client('Context').get_context_states()
    consumer.client('LocalizationService').get_supported_languages()
    fut = consumer.client('Set').set_string('DN_SET', 'x')
    world.run_sco()
    fut.result(timeout=5)
    consumer.client('Set').activate('AP__ON', None)
    world.run_sco()
    sub = next(iter(consumer.subscription_mgr.subscriptions.values()))
    sub.renew(30)
    sub.get_status()
    from sdc11073.location import SdcLocation
    world.provider.set_location(SdcLocation(fac='f', poc='p', bed='b'), publish_now=False,
                                location_context_descriptor_handle='LC.mds0')
    corpus = []
    seen = set()
    prov_netloc = world.provider_server.netloc
    for e in L.NET.log:
        if e.kind != 'POST' or not e.request:
            continue
        key = (e.netloc == prov_netloc, e.action)
        if key in seen:
            continue
        seen.add(key)
        corpus.append({'to': 'provider' if e.netloc == prov_netloc else 'consumer', 'path': e.path, 'body': e.request,
                       'action': e.action})
    # an Unsubscribe for a subscription that is not the one the consumer mdib lives on
    cons_server = world.consumers[0][2]
    mem_p = M.MemServer()
    mem_p.dispatcher = world.provider_server.dispatcher
    mem_c = M.MemServer()
    mem_c.dispatcher = cons_server.dispatcher
    tmpdir = tempfile.mkdtemp(prefix='vf_c13_')
    token = 'VFCANARY' + os.urandom(6).hex()
    canary = os.path.join(tmpdir, 'canary.txt')
    with open(canary, 'w') as f:
        f.write(token)
    # capture what the readers hand on
    handed = []
    for reader in (world.provider.msg_reader, consumer.msg_reader):
        orig = reader.read_received_message

        def spy(xml_text, validate=True, orig=orig):
            msg = orig(xml_text, validate=validate)
            handed.append(msg)
            return msg
        reader.read_received_message = spy
    _STATE['s'] = {'world': world, 'consumer': consumer, 'cmdib': cmdib, 'corpus': corpus, 'mem': {'provider': mem_p, 'consumer': mem_c},
                   'canary': canary, 'token': token, 'handed': handed, 'tmpdir': tmpdir}
    return _STATE['s']


def close_session():
    s = _STATE.pop('s', None)
    if s is not None:
        s['world'].close()
        try:
            os.remove(s['canary'])
            os.rmdir(s['tmpdir'])
        except OSError:
            pass


def table_scan(world):
    out = []
    for name, mgr in sorted(world.provider._subscriptions_managers.items()):  # noqa: SLF001
        out.append((name, tuple(sorted((s.identifier_uuid.hex, s.unsubscribed_at is None, s._expire_seconds)  # noqa: SLF001
                                       for s in mgr._subscriptions.objects))))  # noqa: SLF001
    return tuple(out)


def http_request(method, path, headers, body, version='HTTP/1.1'):
    head = f'{method} {path} {version}\r\n' + ''.join(f'{k}: {v}\r\n' for k, v in headers) + '\r\n'
    return head.encode('latin-1', errors='replace') + body


_HEADER_LINE = re.compile(rb"^[!#$%&'*+\-.^_`|~0-9A-Za-z]+:[^\r\n]*$")  # RFC 7230 header-field, no obs-fold


def judge_response(raw: bytes, exc, reader, label, require_response=True, post=True):
    """Findings common to both parts: nothing escapes, no spin, an HTTP response with a status line, body is a SOAP
    envelope (fault shape if it is a fault) or empty / plain text for HTTP level errors."""
    out = []
    if isinstance(exc, M.SpinDetected):
        return [(f'{P}/{label}/spins-at-end-of-stream', f'{exc}')], None, None
    if exc is not None:
        return [(f'{P}/{label}/exception-escapes/{R.exc_sig(exc)}', f'{type(exc).__name__}: {exc}'[:300])], None, None
    if not raw:
        if require_response:
            out.append((f'{P}/{label}/no-response', 'complete request, nothing was written back'))
        return out, None, None
    m = re.match(rb'HTTP/1\.[01] (\d{3})[ \r]', raw)
    if m is None:
        if not require_response:
            return out, None, None  # malformed request line: the stdlib answers in HTTP/0.9 style, without status line
        return [(f'{P}/{label}/no-status-line', f'{raw[:60]!r}')], None, None
    status = int(m.group(1))
    head, _, body = raw.partition(b'\r\n\r\n')
    headers = {}
    lines = head.split(b'\r\n')
    if b'\n' in lines[0] or b'\r' in lines[0]:
        return [(f'{P}/{label}/response-head-malformed', f'line break inside the status line: {lines[0][:120]!r}')], status, None
    for ln in lines[1:]:
        if not _HEADER_LINE.match(ln):
            # e.g. a reason phrase with line breaks: whatever follows the first line break is read as header fields
            return [(f'{P}/{label}/response-head-malformed', f'status {status}, header line {ln[:80]!r}')], status, None
        k, _, v = ln.partition(b':')
        headers[k.strip().lower()] = v.strip()
    if b'content-length' in headers and headers[b'content-length'].isdigit():
        body = body[:int(headers[b'content-length'])]  # a second response (keep-alive, leftover bytes) may follow
    if headers.get(b'transfer-encoding', b'').lower() == b'chunked':
        from vf.props.c17 import ref_dechunk
        try:
            body, _rest = ref_dechunk(body)
        except ValueError:
            out.append((f'{P}/{label}/response-chunking-invalid', f'{body[:60]!r}'))
            return out, status, None
    enc = headers.get(b'content-encoding')
    if enc:
        from sdc11073.httpserver.compression import CompressionHandler
        body = CompressionHandler.decompress_payload(enc.decode(), body)
    ctype = headers.get(b'content-type', b'')
    root = None
    if body and b'xml' in ctype:
        try:
            root = etree.fromstring(body)
        except etree.XMLSyntaxError:
            out.append((f'{P}/{label}/response-not-well-formed', f'{body[:120]!r}'))
            return out, status, None
        if root.tag == f'{{{S12}}}Envelope':
            fault = root.find(f'{{{S12}}}Body/{{{S12}}}Fault')
            if fault is not None and fault.find(f'{{{S12}}}Code/{{{S12}}}Value') is None:
                out.append((f'{P}/{label}/fault-malformed', etree.tostring(fault)[:200].decode()))
            if fault is None and status >= 400:
                out.append((f'{P}/{label}/error-status-without-fault', f'status {status}'))
    if status == 500 and root is None and post:  # noqa: PLR2004
        # the last resort of the HTTP handler: an exception came out of the component's do_post.  The request was
        # answered, but with neither the proper response nor a SOAP fault  (GET: wsdl / plain resources, not judged here)
        reason = lines[0].split(b' ', 2)[-1][:160].decode('latin-1')
        out.append((f'{P}/{label}/internal-error-without-fault', f'500 {reason!r} with body {body[:60]!r}'))
    return out, status, root


def judge_follow_up(response: bytes, c) -> list:
    """The bytes after the first response: nothing (the connection was closed) or exactly one proper answer to the valid
    follow-up request - the body of the first request must never be taken for a request."""
    from vf.props.c17 import split_responses
    try:
        responses = split_responses(response)
    except ValueError as ex:
        return [(f'{P}/framing/keep-alive/response-stream-unparsable', str(ex)[:200])]
    if len(responses) > 2:  # noqa: PLR2004
        return [(f'{P}/framing/keep-alive/request-body-taken-for-a-request',
                 f'{len(responses)} responses for 2 requests: {[r[0] for r in responses]}')]
    if len(responses) == 2:  # noqa: PLR2004
        status_line = responses[1][0]
        if not re.match(r'HTTP/1\.[01] 20[02]', status_line):
            return [(f'{P}/framing/keep-alive/valid-follow-up-request-rejected',
                     f'first request: {c["method"]} {c["path"]!r} (answered "{responses[0][0]}"); the valid request that '
                     f'followed on the same connection was answered "{status_line}"')]
    return []


# ---------------------------------------------------------------------------------------------------- framing

def _c17():
    from vf.props import c17
    return c17


def st_framing():
    cl = st.sampled_from(['exact', 'absent', 'short', 'long', 'abc', '-5', '1e3', '99999999999999999999', '', ' 7'])
    chunk = st.sampled_from(['none', 'ok', 'ok-ext', 'truncated-body', 'truncated-header', 'negative', 'huge', 'nonhex', 'no-final',
                             'empty-header', 'missing-crlf', 'upper-TE', 'truncated-tail', 'truncated-any', 'trailer',
                             'trailer-truncated'])
    return st.fixed_dictionaries({
        'method': st.sampled_from(['POST', 'POST', 'POST', 'GET', 'PUT', 'DELETE', 'post', '']),
        'path': st.sampled_from(['valid', 'valid', 'valid-sub', '', '?', '?wsdl', 'noslash', '/unknown/x', '/a/b/c/d/e/f', '/%ZZ', '//', '/',
                                 'valid?wsdl', 'http://h/abs',
                                 'valid+/G\x01et', 'valid-last\x01', 'valid+\x7f', 'valid+/\xe4', 'valid+#frag', 'valid+;p=1',
                                 'valid+%00', 'valid+/%2F', 'http://[x/', '//[x', 'http://h:99999/x', 'valid-abs', 'valid-abs-bad',
                                 '/\x01', '*', 'valid+\\x']),
        'version': st.sampled_from(['HTTP/1.1', 'HTTP/1.1', 'HTTP/1.0', 'HTTP/9.9', 'HTTP/1.1 x']),
        'cl': cl, 'chunk': chunk,
        'coding': st.sampled_from(['none', 'none', 'gzip', 'gzip-corrupt', 'br', 'x-lz4', 'lz4-corrupt', 'GZIP', 'gzip,gzip']),
        'accept': st.one_of(st.sampled_from([None, 'gzip', 'gzip;q=0', '*', 'x-lz4, gzip', 'identity', 'gzip ; q = abc', ',,,']),
                            _c17().st_header().map(_c17().render_header)),
        'body': st.one_of(st.integers(0, 40), st.binary(max_size=60)), 'to': st.sampled_from(['provider', 'provider', 'consumer']),
        'chunk_size': st.integers(1, 300), 'cut': st.integers(0, 5000),
        # a valid request follows on the same (keep-alive) connection
        'follow': st.booleans()})


def framing_case(ctx, c):
    from sdc11073.httpserver import httpreader
    from sdc11073.httpserver.compression import CompressionHandler
    s = session()
    corpus = [m for m in s['corpus'] if m['to'] == c['to']]
    if isinstance(c['body'], int):
        base = corpus[c['body'] % len(corpus)]
        body, valid_path = base['body'], base['path']
    else:
        body, valid_path = bytes(c['body']), corpus[0]['path']
    path = {'valid': valid_path, 'valid-sub': valid_path + '/extra', 'valid?wsdl': valid_path + '/?wsdl',
            'valid-last\x01': valid_path.rsplit('/', 1)[0] + '/G\x01et', 'valid-abs': 'http://h' + valid_path,
            'valid-abs-bad': 'http://[h' + valid_path}.get(c['path'], c['path'])
    if path.startswith('valid+'):
        path = valid_path + path[len('valid+'):]
    payload = body
    headers = [('Host', 'h'), ('Content-Type', 'application/soap+xml; charset=utf-8')]
    coding = c['coding']
    if coding == 'gzip':
        payload = CompressionHandler.compress_payload('gzip', body)
    elif coding == 'gzip-corrupt':
        payload = CompressionHandler.compress_payload('gzip', body)[:-6] + b'\0\0\0\0\0\0'
        coding = 'gzip'
    elif coding == 'x-lz4' and 'x-lz4' in CompressionHandler.available_encodings:
        payload = CompressionHandler.compress_payload('x-lz4', body)
    elif coding == 'lz4-corrupt':
        payload, coding = b'\x04\x22\x4d\x18garbage', 'x-lz4'
    if coding != 'none':
        headers.append(('Content-Encoding', coding))
    if c['accept'] is not None:
        headers.append(('Accept-Encoding', c['accept']))
    framing = c['chunk']
    if framing == 'none':
        if c['cl'] != 'absent':
            n = {'exact': len(payload), 'short': max(len(payload) - 5, 0), 'long': len(payload) + 50}.get(c['cl'], c['cl'])
            headers.append(('Content-Length', str(n)))
        wire = payload
    else:
        headers.append(('TRANSFER-ENCODING' if framing == 'upper-TE' else 'Transfer-Encoding', 'chunked'))
        ok = httpreader.mk_chunks(payload, c['chunk_size'])
        if framing in ('ok', 'upper-TE'):
            wire = ok
        elif framing == 'ok-ext':
            wire = ok.replace(b'\r\n', b';name=val\r\n', 1)
        elif framing == 'truncated-body':
            wire = ok[:max(len(ok) // 2, 3)]
        elif framing == 'truncated-header':
            wire = ok[:1]
        elif framing == 'negative':
            wire = b'-5\r\nabcde\r\n0\r\n\r\n'
        elif framing == 'huge':
            wire = b'7fffffffffff\r\n' + payload[:20]
        elif framing == 'nonhex':
            wire = b'zz\r\n' + payload[:10] + b'\r\n0\r\n\r\n'
        elif framing == 'no-final':
            wire = ok[:-5]
        elif framing == 'truncated-tail':  # the stream ends inside the last-chunk line / the final CRLF
            wire = ok[:-(c.get('cut', 0) % 6 + 1)]
        elif framing == 'truncated-any':
            wire = ok[:c.get('cut', 0) % len(ok)]
        elif framing == 'trailer':
            wire = ok[:-2] + b'X-Trailer: 1\r\n\r\n'
        elif framing == 'trailer-truncated':
            wire = (ok[:-2] + b'X-Trailer: 1\r\n\r\n')[:-(c.get('cut', 0) % 16 + 1)]
        elif framing == 'empty-header':
            wire = b'\r\n' + ok
        else:  # missing-crlf
            wire = ok.replace(b'\r\n', b'', 2)
    raw = http_request(c['method'], path, headers, wire, c['version'])
    well_framed = (framing == 'none' and c['cl'] == 'exact') or framing in ('ok', 'ok-ext', 'upper-TE')
    follow = None
    # (only after a POST: a GET handler does not read a body, so the bytes sent as the body of a GET are the next request
    # for the server as well as for any HTTP/1.1 intermediary - nothing valid can be said to follow them)
    if c.get('follow') and well_framed and c['method'] == 'POST':
        wanted = '/GetMdState' if c['to'] == 'provider' else 'Report'
        follow = next((m for m in corpus if (m['action'] or '').endswith(wanted)), None)
        if follow is not None:
            raw += http_request('POST', follow['path'], [('Host', 'h'), ('Content-Type', 'application/soap+xml; charset=utf-8'),
                                                         ('Content-Length', str(len(follow['body']))),
                                                         ('Connection', 'close')], follow['body'])
    world = s['world']
    before = (C.canon_mdib(world.mdib), table_scan(world))
    response, exc, reader = M.handle_raw(s['mem'][c['to']], raw)
    default_path = (c['method'] == 'POST' and c['path'] == 'valid' and c['version'] == 'HTTP/1.1' and framing == 'none'
                    and c['cl'] == 'exact' and c['coding'] == 'none')
    ctx.case(c, not default_path, 'framing', classes=(f'chunk:{framing}', f'cl:{c["cl"]}', f'coding:{c["coding"]}', c['method'] or 'empty'))
    well_formed_request_line = c['method'] in ('POST', 'GET') and c['version'] in ('HTTP/1.1', 'HTTP/1.0') and bool(path) \
        and ' ' not in path
    out, status, root = judge_response(response, exc, reader, 'framing', require_response=well_formed_request_line,
                                       post=c['method'] == 'POST')
    if follow is not None and not out and status is not None:
        out += judge_follow_up(response, c)
    accepted = status is not None and status < 300 and (root is None or root.find(f'{{{S12}}}Body/{{{S12}}}Fault') is None)
    if not accepted and not out:
        after = (C.canon_mdib(world.mdib), table_scan(world))
        if after != before:
            out.append((f'{P}/framing/rejected-request-changed-state', f'status {status}'))
    return out


# ------------------------------------------------------------------------------------------------------- soap

def st_mutation():
    big = st.sampled_from(['999999999999999999999999', '-1', '-999999999999', '1e309', 'NaN', '', ' ', '\u0000', 'A' * 2000,
                           '../../etc/passwd', 'urn:uuid:x', '0', 'true', 'PT9999999999H', '-PT1S',
                           # address-like values (NotifyTo / EndTo / To / ReplyTo / Identifier)
                           'http://127.0.0.1:99999/x', 'http://[::1/x', 'http://h:abc/x', 'ftp://h/x', 'https://127.0.0.1:1/\u20ac',
                           'http:///nohost', '//h/x', 'http://127.0.0.1:0/', 'mailto:a@b'])
    m = st.one_of(
        st.tuples(st.just('del_elem'), st.integers(0, 200)).map(list),
        st.tuples(st.just('dup_elem'), st.integers(0, 200)).map(list),
        st.tuples(st.just('rename_elem'), st.integers(0, 200), st.sampled_from(['X', '{urn:foreign}Y', '{%s}Body' % S12])).map(list),
        st.tuples(st.just('del_attr'), st.integers(0, 200)).map(list),
        st.tuples(st.just('set_attr'), st.integers(0, 200), big).map(list),
        st.tuples(st.just('set_text'), st.integers(0, 200), big).map(list),
        st.tuples(st.just('entity_text'), st.integers(0, 200), st.sampled_from(['xxe', 'int', 'param'])).map(list),
        st.tuples(st.just('swap_action'), st.sampled_from(['', 'urn:nope', 'http://schemas.xmlsoap.org/ws/2004/08/eventing/Unsubscribe',
                                                           'http://standards.ieee.org/downloads/11073/11073-20701-2018/GetService/GetMdib'])).map(list),
        st.tuples(st.just('path'), st.sampled_from(['', '/', '/nope', 'SUFFIX/x', 'SUFFIX/../..', '?', 'PREFIXONLY', 'SUFFIX/G\x01et',
                                                    'LAST\x01', 'SUFFIX\x7f', 'SUFFIX#f', 'SUFFIX;p', 'ABS', 'ABS-BAD', 'SUFFIX/\xe4',
                                                    # the device prefix exists, the service element below it does not
                                                    'SERVICE:Foo', 'SERVICE:', 'SERVICE:get', 'SERVICE:Foo/Get'])).map(list),
        st.tuples(st.just('doctype'), st.sampled_from(['xxe', 'int', 'param', 'bomb', 'http'])).map(list),
        st.tuples(st.just('truncate'), st.integers(1, 3000)).map(list),
        st.tuples(st.just('prefix'), st.sampled_from(['bom', 'utf16', 'latin1decl', 'junk', 'ws'])).map(list),
        st.tuples(st.just('xinclude'), st.integers(0, 200)).map(list),
        # a comment of more than 1 MiB (size-dependent code paths of the reader)
        st.tuples(st.just('pad'), st.sampled_from([70_000, 1_100_000])).map(list),
    )
    return st.tuples(st.integers(0, 60), st.lists(m, min_size=1, max_size=3))


def apply_mutations(base, muts, s):
    """Returns (path, bytes). Mutations that need the tree are applied first, byte-level ones afterwards."""
    path = base['path']
    root = etree.fromstring(base['body'])
    elems = [e for e in root.iter() if isinstance(e.tag, str)]
    doctype = None
    post = []
    ent_used = None
    for mu in muts:
        kind = mu[0]
        elems = [e for e in root.iter() if isinstance(e.tag, str)]
        if not elems:
            break
        if kind == 'del_elem':
            e = elems[mu[1] % len(elems)]
            if e.getparent() is not None:
                e.getparent().remove(e)
        elif kind == 'dup_elem':
            e = elems[mu[1] % len(elems)]
            if e.getparent() is not None:
                e.getparent().append(etree.fromstring(etree.tostring(e)))
        elif kind == 'rename_elem':
            elems[mu[1] % len(elems)].tag = mu[2]
        elif kind == 'del_attr':
            with_attr = [e for e in elems if e.attrib]
            if with_attr:
                e = with_attr[mu[1] % len(with_attr)]
                del e.attrib[sorted(e.attrib)[0]]
        elif kind == 'set_attr':
            with_attr = [e for e in elems if e.attrib]
            if with_attr:
                e = with_attr[mu[1] % len(with_attr)]
                try:
                    e.set(sorted(e.attrib)[mu[1] % len(e.attrib)], mu[2])
                except ValueError:
                    pass
        elif kind == 'set_text':
            leaves = [e for e in elems if len(e) == 0]
            try:
                leaves[mu[1] % len(leaves)].text = mu[2]
            except ValueError:
                pass
        elif kind == 'entity_text':
            leaves = [e for e in elems if len(e) == 0]
            leaves[mu[1] % len(leaves)].text = 'VFENTITYREF'
            ent_used = mu[2]
            doctype = doctype or mu[2]
        elif kind == 'swap_action':
            a = root.find(f'{{{S12}}}Header/{{http://www.w3.org/2005/08/addressing}}Action')
            if a is not None:
                a.text = mu[1]
        elif kind == 'path':
            first = '/' + path.strip('/').split('/')[0]
            if mu[1].startswith('SERVICE:'):
                path = first + '/' + mu[1][len('SERVICE:'):]
                continue
            path = {'PREFIXONLY': first, 'LAST\x01': path.rsplit('/', 1)[0] + '/G\x01et', 'ABS': 'http://h' + path,
                    'ABS-BAD': 'http://[h' + path}.get(mu[1], path + mu[1][len('SUFFIX'):] if mu[1].startswith('SUFFIX') else mu[1])
        elif kind == 'doctype':
            doctype = mu[1]
        elif kind == 'xinclude':
            e = elems[mu[1] % len(elems)]
            inc = etree.SubElement(e, '{http://www.w3.org/2001/XInclude}include')
            inc.set('href', 'file://' + s['canary'])
            inc.set('parse', 'text')
        else:
            post.append(mu)
    data = etree.tostring(root)
    if doctype is not None:
        decl = {
            'xxe': f'<!DOCTYPE x [<!ENTITY xxe SYSTEM "file://{s["canary"]}">]>',
            'int': '<!DOCTYPE x [<!ENTITY xxe "VFEXPANDED-internal">]>',
            'param': f'<!DOCTYPE x [<!ENTITY % p SYSTEM "file://{s["canary"]}"> %p; <!ENTITY xxe "VFEXPANDED-param">]>',
            'bomb': '<!DOCTYPE x [<!ENTITY a "VFEXPANDED"><!ENTITY b "&a;&a;&a;&a;&a;&a;&a;&a;"><!ENTITY xxe "&b;&b;&b;&b;&b;&b;&b;&b;">]>',
            'http': '<!DOCTYPE x [<!ENTITY xxe SYSTEM "http://127.0.0.1:9/vf_canary">]>',
        }[doctype]
        data = decl.encode() + data.replace(b'VFENTITYREF', b'&xxe;')
        _ = ent_used
    for mu in post:
        if mu[0] == 'pad':
            cut = data.find(b'>', data.find(b'Envelope')) + 1
            if cut > 0:
                data = data[:cut] + b'<!--' + b'p' * mu[1] + b'-->' + data[cut:]
        elif mu[0] == 'truncate':
            data = data[:mu[1]]
        elif mu[0] == 'prefix':
            if mu[1] == 'bom':
                data = b'\xef\xbb\xbf' + data
            elif mu[1] == 'utf16':
                data = data.decode('utf-8', errors='replace').encode('utf-16')
            elif mu[1] == 'latin1decl':
                data = b'<?xml version="1.0" encoding="iso-8859-1"?>' + data + b'\xe4'
            elif mu[1] == 'junk':
                data = b'\x00\xff\xfe' + data
            else:
                data = b'  \r\n' + data
    return path, data


def soap_case(ctx, case):
    idx, muts = case
    s = session()
    base = s['corpus'][idx % len(s['corpus'])]
    path, data = apply_mutations(base, muts, s)
    world = s['world']
    before = (C.canon_mdib(world.mdib), table_scan(world))
    raw = http_request('POST', path, [('Host', 'h'), ('Content-Type', 'application/soap+xml; charset=utf-8'),
                                      ('Content-Length', str(len(data)))], data)
    del s['handed'][:]
    response, exc, reader = M.handle_raw(s['mem'][base['to']], raw)
    out, status, root = judge_response(response, exc, reader, 'soap', require_response=bool(path) and ' ' not in path)
    reached = bool(s['handed'])
    ctx.case(case, reached, 'soap', classes=(base['to'], (base['action'] or '').split('/')[-1]) + tuple({m[0] for m in muts}))
    # --- no entity expansion, no external fetch
    leak_tokens = (s['token'], 'VFEXPANDED')
    for tok in leak_tokens:
        if tok.encode() in response:
            out.append((f'{P}/soap/entity-content-in-response', f'{tok[:10]}... appears in the response'))
    for msg in s['handed']:
        try:
            tree_root = msg.p_msg.doc_root if hasattr(msg.p_msg, 'doc_root') else msg.p_msg._doc_root  # noqa: SLF001
        except AttributeError:
            tree_root = None
        if tree_root is None:
            continue
        texts = ''.join(tree_root.itertext()) + ''.join(v for e in tree_root.iter() if isinstance(e.tag, str) for v in e.attrib.values())
        for tok in leak_tokens:
            if tok in texts:
                out.append((f'{P}/soap/entity-expanded-in-parsed-message', f'{tok[:10]}... appears in the tree the reader hands on'))
    accepted = status is not None and status < 300 and (root is None or root.find(f'{{{S12}}}Body/{{{S12}}}Fault') is None)
    if not accepted and not out:
        after = (C.canon_mdib(world.mdib), table_scan(world))
        if after != before:
            d = C.diff_mdib(before[0], after[0])
            out.append((f'{P}/soap/rejected-request-changed-state/{base["to"]}',
                        f'status {status}: mdib diff {[list(map(str, x)) for x in d[:2]]}, subscriptions changed: {before[1] != after[1]}'))
    return out


# ---------------------------------------------------------------------------------- consumer with the deferred dispatcher
def deferred_session():
    """A second consumer with the library's default (deferred) dispatcher: requests are answered at once and handled by
    a worker thread.  The worker is part of the endpoint: it has to survive every request."""
    s = session()
    if 'deferred' in s:
        return s['deferred']
    from sdc11073 import observableproperties as properties
    world = s['world']
    consumer, _ = world.add_consumer(init_mdib=False, deferred=True)
    server = world.consumers[-1][2]
    mem = M.MemServer()
    mem.dispatcher = server.dispatcher
    seen = []
    properties.strongbind(consumer, state_event_report=lambda v: seen.append(v))
    # a valid notification for this consumer: commit once and take it from the wire
    mdib = world.mdib
    h = sorted(st_.DescriptorHandle for st_ in mdib.states.objects if st_.is_metric_state
               and not st_.is_realtime_sample_array_metric_state)[0]
    log0 = len(L.NET.log)
    with mdib.metric_state_transaction() as mgr:
        mgr.get_state(h).ActivationState = mdib.data_model.pm_types.ComponentActivation.ON
    valid = [e for e in L.NET.log[log0:] if e.netloc == server.netloc and e.action and e.action.endswith('EpisodicMetricReport')]
    end = None
    for sub in consumer.subscription_mgr.subscriptions.values():
        end = sub.end_to_url
    # a SubscriptionEnd as the provider sends it (taken from the wire of a throw-away consumer)
    extra = []
    tmp_consumer, _ = world.add_consumer(init_mdib=False)
    tmp_netloc = world.consumers[-1][2].netloc
    log0 = len(L.NET.log)
    for mgr in world.provider._subscriptions_managers.values():  # noqa: SLF001
        for psub in list(mgr._subscriptions.objects):  # noqa: SLF001
            if psub.notify_to_url.netloc == tmp_netloc:
                psub.send_notification_end_message()
                break
    for e in L.NET.log[log0:]:
        if e.netloc == tmp_netloc and e.action and e.action.endswith('SubscriptionEnd'):
            extra.append({'to': 'consumer', 'path': e.path, 'body': e.request, 'action': e.action})
            break
    d = {'consumer': consumer, 'mem': mem, 'seen': seen, 'valid': valid[0], 'dispatcher': consumer._services_dispatcher,  # noqa: SLF001
         'prefix': '/' + consumer.path_prefix, 'end_to': end, 'extra': extra}
    _wait_processed(d, len(seen) + 0, first=True)
    s['deferred'] = d
    return d


def _wait_processed(d, n_before, first=False, timeout=3.0):
    import time
    t_end = time.monotonic() + timeout
    while time.monotonic() < t_end:
        if (first or len(d['seen']) > n_before) and d['dispatcher']._queue.empty():  # noqa: SLF001
            return True
        time.sleep(0.005)
    return False


def deferred_case(ctx, case):
    idx, muts = case
    s = session()
    d = deferred_session()
    corpus = d['extra'] * 2 + [m for m in s['corpus'] if m['to'] == 'consumer']
    base = dict(corpus[idx % len(corpus)])
    # the corpus was recorded for the first consumer: same messages, this consumer's paths
    sub_path = base['path'].strip('/').split('/', 1)[1] if '/' in base['path'].strip('/') else ''
    base['path'] = f'{d["prefix"]}/{sub_path}'
    path, data = apply_mutations(base, muts, s)
    raw = http_request('POST', path, [('Host', 'h'), ('Content-Type', 'application/soap+xml; charset=utf-8'),
                                      ('Content-Length', str(len(data)))], data)
    response, exc, reader = M.handle_raw(d['mem'], raw)
    out, _status, _root = judge_response(response, exc, reader, 'deferred', require_response=bool(path) and ' ' not in path)
    ctx.case(case, True, 'deferred', classes=tuple({m[0] for m in muts}))
    worker = d['dispatcher']._worker  # noqa: SLF001
    _wait_processed(d, 0, first=True, timeout=2.0)
    if not worker.is_alive():
        out.append((f'{P}/deferred/worker-thread-died', f'after POST {path!r} with mutations {R.short(muts, 200)}'))
        s.pop('deferred', None)  # a fresh consumer for the next case
        return out
    # a valid notification afterwards is still processed
    n = len(d['seen'])
    v = d['valid']
    raw = http_request('POST', v.path, [('Host', 'h'), ('Content-Type', 'application/soap+xml; charset=utf-8'),
                                        ('Content-Length', str(len(v.request)))], v.request)
    M.handle_raw(d['mem'], raw)
    if not _wait_processed(d, n, timeout=3.0) and not worker.is_alive():
        out.append((f'{P}/deferred/worker-thread-died', f'after POST {path!r} with mutations {R.short(muts, 200)}'))
        s.pop('deferred', None)
    elif len(d['seen']) <= n:
        ctx.count('deferred/valid-notification-not-seen-within-3s (inconclusive)')
    return out


def st_deferred_mutation():
    return st.tuples(st.integers(0, 60), st.lists(st.one_of(
        st_mutation().map(lambda t: t[1][0]),
        st.tuples(st.just('path'), st.sampled_from(['PREFIXONLY', 'PREFIXONLY', 'SUFFIX/x', '/nope'])).map(list)), min_size=1, max_size=3))


# ------------------------------------------------------------------------------------- coverage-guided part (atheris)
def fuzz_one(s, data: bytes):
    """Judge one fuzzer input: byte 0 selects the endpoint (even: provider, odd: consumer), byte 1 bit 0 asks for the
    Content-Length header to be corrected to the real body length (so that byte mutations of the body reach the SOAP
    layer), the rest is the byte stream of the connection.  -> (findings, reached the message reader)"""
    world = s['world']
    target = 'provider' if data[0] % 2 == 0 else 'consumer'
    raw = data[2:]
    if data[1] & 1:
        head, sep, body = raw.partition(b'\r\n\r\n')
        if sep:
            head = re.sub(rb'(?im)^content-length:[^\r\n]*', b'Content-Length: %d' % len(body), head)
            raw = head + sep + body
    before = (world.mdib.mdib_version, table_scan(world))
    del s['handed'][:]
    response, exc, reader = M.handle_raw(s['mem'][target], raw)
    reached = bool(s['handed'])
    try:
        out, status, root = judge_response(response, exc, reader, 'fuzz', require_response=False,
                                           post=raw[:5] == b'POST ')
    except Exception as ex:  # noqa: BLE001  (e.g. an undecodable response body)
        if R.exc_in_library(ex) or isinstance(ex, (ValueError, OSError)):
            return [(f'{P}/fuzz/response-unjudgeable/{type(ex).__name__}', str(ex)[:200])], reached
        raise
    for tok in (s['token'], 'VFEXPANDED'):
        if tok.encode() in response:
            out.append((f'{P}/fuzz/entity-content-in-response', f'{tok[:10]}... appears in the response'))
    accepted = status is not None and status < 300 and (root is None or root.find(f'{{{S12}}}Body/{{{S12}}}Fault') is None)  # noqa: PLR2004
    if not accepted and not out and (world.mdib.mdib_version, table_scan(world)) != before:
        out.append((f'{P}/fuzz/rejected-request-changed-state', f'status {status}'))
    return out, reached


def fuzz_seed_inputs(s) -> list:
    out = []
    for m in s['corpus']:
        raw = http_request('POST', m['path'], [('Host', 'h'), ('Content-Type', 'application/soap+xml; charset=utf-8'),
                                               ('Content-Length', str(len(m['body'])))], m['body'])
        out.append((b'\x00' if m['to'] == 'provider' else b'\x01') + b'\x01' + raw)
    return out


def start_fuzz(ctx, runs, n_procs):
    """Start atheris campaigns in child processes (libFuzzer owns the process); findings come back as files."""
    import subprocess
    import sys
    out_dir = tempfile.mkdtemp(prefix='vf_c13_fuzz_')
    procs = []
    for i in range(n_procs):
        cmd = [sys.executable, '-m', 'vf.fuzz_c13', out_dir, str(runs), str((ctx.seed * 1000 + i) % 2**31 or 1), str(i)]
        procs.append(subprocess.Popen(cmd, stdout=subprocess.DEVNULL, stderr=subprocess.PIPE))  # noqa: S603
    return out_dir, procs, runs


def collect_fuzz(ctx, handle):
    import glob
    import json
    import shutil
    import subprocess
    out_dir, procs, runs = handle
    try:
        for i, pr in enumerate(procs):
            try:
                _, err = pr.communicate(timeout=max(ctx.budget_s - ctx.elapsed(), 30))
            except subprocess.TimeoutExpired:
                pr.kill()
                pr.communicate()
                ctx.count('fuzz/campaign-stopped-by-budget')
                continue
            if pr.returncode != 0:
                tail = (err or b'').decode(errors='replace')[-600:]
                if 'No module named' in tail and 'atheris' in tail:
                    ctx.note('atheris is not installed: the coverage-guided part did not run')
                    return
                raise R.HarnessError(f'fuzz campaign {i} ended with status {pr.returncode}: {tail}')
        execs = reached = 0
        for f in glob.glob(os.path.join(out_dir, 'stats_*.json')):
            with open(f) as fh:
                st_ = json.load(fh)
            execs += st_['execs']
            reached += st_['reached_reader']
        ctx.bulk(execs, reached, 'fuzz', sample={'campaigns': len(procs), 'runs_each': runs})
        ctx.count('fuzz/executions', execs)
        ctx.count('fuzz/reached-message-reader', reached)
        for f in sorted(glob.glob(os.path.join(out_dir, 'finding_*.json'))):
            with open(f) as fh:
                d = json.load(fh)
            ctx.finding(d['signature'], d['detail'], {'input_hex': d['input_hex']}, 'fuzz')
    finally:
        shutil.rmtree(out_dir, ignore_errors=True)


def shard(ctx, which, n):
    W.quiet_logging()
    try:
        if which == 'deferred':
            R.hyp_campaign(ctx, which, st_deferred_mutation(), lambda c: deferred_case(ctx, c), n)
        elif which == 'framing':
            R.hyp_campaign(ctx, which, st_framing(), lambda c: framing_case(ctx, c), n)
        else:
            R.hyp_campaign(ctx, which, st_mutation(), lambda c: soap_case(ctx, c), n)
    finally:
        close_session()


def run(ctx):
    q = ctx.tier == 'quick'
    fuzz = start_fuzz(ctx, 800 if q else 60000, 1 if q else 6)  # runs beside the Hypothesis shards
    R.run_shards(ctx, __name__, 'shard', [('framing', 500 if q else 40000)] * 7 + [('soap', 350 if q else 15000)] * 7 + [
        ('deferred', 150 if q else 6000)] * 2)
    collect_fuzz(ctx, fuzz)


def replay(part, case):
    ctx = R.Ctx(P, 'quick', 0, {})
    W.quiet_logging()
    try:
        if part == 'framing':
            return framing_case(ctx, case)
        if part == 'deferred':
            return deferred_case(ctx, (case[0], [list(m) for m in case[1]]))
        if part == 'fuzz':
            return fuzz_one(session(), bytes.fromhex(case['input_hex']))[0]
        return soap_case(ctx, (case[0], [list(m) for m in case[1]]))
    finally:
        close_session()
