"""C09 - operation invocations follow the BICEPS invocation-state protocol end to end.

Part e2e   histories of Set/Activate/SetContextState calls from 1-2 consumers (real service clients, loop-back
           transport, SetService, SCO registry; the SCO worker loop is run inline when the history says 'drain') against
           handlers replaced by generated behaviours {Fin, FinMod, Fail, raise}, direct and queued processing.
Part opmgr the consumer OperationsManager alone, fed with a response and the report parts of 1-3 concurrent
           transactions in every (enumerated) interleaving, plus duplicated final parts.
"""
from __future__ import annotations

import itertools
import logging
import re
from decimal import Decimal

from hypothesis import strategies as st
from lxml import etree

from vf import canon as C
from vf import loopback as L
from vf import run as R
from vf import world as W

P = 'C09'
META = {
    'level': 'exploration',
    'rule': ('part e2e: histories (<= 14 steps) of calls (operation kind x behaviour x direct/queued x consumer), unknown '
             'operation handles and drains on tests/mdib_two_mds.xml; part opmgr: all interleavings of response and 1-3 '
             'report parts for 1-2 concurrent transactions (enumerated), sampled for 3, with duplicated final parts; '
             'non-trivial = a handler that fails or raises, or >= 2 requests in flight (e2e); at least one part delivered '
             'before the response (opmgr); distinct by case'),
    'exhaustive_parts': ['opmgr'],
    'assumptions': ['a request that arrives while the worker queue (10 entries) is full may be refused with a fault; a request '
                    'that is answered with an InvocationInfo must reach a final state'],
}

FIXTURE = 'mdib_two_mds.xml'
MSG_NS = 'http://standards.ieee.org/downloads/11073/11073-10207-2017/message'
FINAL = {'Fin', 'FinMod', 'Fail', 'Cnclld', 'CnclldMan'}


# ------------------------------------------------------------------------------------------------------- e2e

def st_history():
    call = st.tuples(st.just('call'), st.integers(0, 1), st.integers(0, 20),
                     st.sampled_from(['Fin', 'Fin', 'FinMod', 'Fail', 'raise', 'raise_bare']),
                     st.sampled_from(['direct', 'queued'])).map(list)
    # burst: n queued calls in a row - more than the worker queue (10) holds when nothing drains it in between
    burst = st.tuples(st.just('burst'), st.integers(0, 1), st.integers(0, 20), st.integers(9, 12)).map(list)
    # the worker finds its queue empty for a second (it then checks the invocation time-outs; the application's time-out
    # handler may raise) before it goes on with what is queued
    idle = st.tuples(st.just('idle'), st.sampled_from(['ok', 'raise', 'raise'])).map(list)
    step = st.one_of(call, call, call, call, call, call, st.just(['drain']), st.just(['drain']), idle,
                     st.tuples(st.just('call_unknown'), st.integers(0, 1)).map(list),
                     st.tuples(st.just('call_unknown'), st.integers(0, 1)).map(list), burst,
                     # the application withdraws an operation (its descriptor stays in the MDIB)
                     st.tuples(st.just('unregister'), st.integers(0, 20)).map(list))
    return st.lists(step, min_size=1, max_size=14)


class E2E:
    def __init__(self, n_consumers=2):
        from vf.props import c01
        c01.park_role_workers()
        L.reset_network()
        W.quiet_logging()
        self.world = W.World(W.fixture(FIXTURE))
        self.world.inline_sco()
        self.consumers = [self.world.add_consumer(init_mdib=True) for _ in range(n_consumers)]
        self.ops = []
        self.registry_of = {}
        self.unregistered = set()
        for reg in self.world.provider._sco_operations_registries.values():  # noqa: SLF001
            for handle, op in sorted(reg._registered_operations.items()):  # noqa: SLF001
                kind = type(op).__name__
                if kind in ('SetStringOperation', 'SetValueOperation', 'ActivateOperation', 'SetContextStateOperation'):
                    self.ops.append((handle, kind, op))
                    self.registry_of[handle] = reg
        self.by_message_id = {}
        self.direct_behaviour = 'Fin'
        self.calls = []  # dict(tx, consumer, expect, mode, future, response_state)
        self.pending = 0
        self.findings = []
        self.max_in_flight = 0
        self.bursts = 0
        self.refused = 0

    def close(self):
        self.world.close()

    def _install(self, op, behaviour, mode):
        from sdc11073.provider.operations import ExecuteResult
        msg_types = self.world.mdib.data_model.msg_types
        states = {'Fin': msg_types.InvocationState.FINISHED, 'FinMod': msg_types.InvocationState.FINISHED_MOD,
                  'Fail': msg_types.InvocationState.FAILED}

        self.direct_behaviour = behaviour

        def handler(params):
            # a queued request is executed later: its behaviour was registered under its wsa:MessageID
            mid = params.soap_message.header_info_block.MessageID
            chosen = self.by_message_id.get(mid, self.direct_behaviour)
            if chosen == 'raise':
                raise RuntimeError('vf handler failure')
            if chosen == 'raise_bare':
                raise NotImplementedError  # an exception without arguments (bare raise of a class, failing assert)
            return ExecuteResult(params.operation_instance.operation_target_handle, states[chosen])
        op._operation_handler = handler  # noqa: SLF001
        op.delayed_processing = mode == 'queued'

    def _invoke(self, consumer, handle, kind):
        if kind == 'SetStringOperation':
            return consumer.client('Set').set_string(handle, 'vf')
        if kind == 'SetValueOperation':
            return consumer.client('Set').set_numeric_value(handle, Decimal('1.5'))
        if kind == 'ActivateOperation':
            return consumer.client('Set').activate(handle, arguments=None)
        client = consumer.client('Context')
        op_descr = self.world.mdib.descriptions.handle.get_one(handle)
        proposed = client.mk_proposed_context_object(op_descr.OperationTarget)
        return client.set_context_state(handle, [proposed])

    def step(self, step):
        if step[0] == 'idle':
            self.idle_then_drain(step[1])
            self.pending = 0
            return
        if step[0] == 'drain':
            self.world.run_sco()
            self.pending = 0
            return
        if step[0] in ('unregister', 'register'):
            handle, _kind, op = self.ops[step[1] % len(self.ops)]
            if step[0] == 'unregister' and handle not in self.unregistered and self.pending == 0:
                self.registry_of[handle].unregister_operation_by_handle(handle)
                self.unregistered.add(handle)
            return
        if step[0] == 'call' and self.ops[step[2] % len(self.ops)][0] in self.unregistered:
            handle, kind, _op = self.ops[step[2] % len(self.ops)]
            step = ['call_unknown', step[1], handle, kind]
        if step[0] == 'call_unknown':
            consumer, _ = self.consumers[step[1] % len(self.consumers)]
            before = C.canon_mdib(self.world.mdib)
            log0 = len(L.NET.log)
            try:
                if len(step) > 2:  # an operation that is in the MDIB but not (any longer) offered by the application
                    fut = self._invoke(consumer, step[2], step[3])
                else:
                    fut = consumer.client('Set').set_string('vf_no_such_operation', 'x')
            except Exception as ex:  # noqa: BLE001
                if not R.exc_in_library(ex):
                    raise
                self.findings.append((f'{P}/unknown-operation-raises/{R.exc_sig(ex)}', str(ex)[:200]))
                return
            res = fut.result(timeout=2) if fut.done() else None
            state = None if res is None else res.InvocationInfo.InvocationState.value
            if state != 'Fail':
                self.findings.append((f'{P}/unknown-operation-not-failed',
                                      f'response state {state}' + (f' for the unregistered operation {step[2]}' if len(step) > 2 else '')))
            if C.diff_mdib(before, C.canon_mdib(self.world.mdib)):
                self.findings.append((f'{P}/unknown-operation-changed-mdib', 'MDIB changed'))
            reports = [e for e in L.NET.log[log0:] if e.action and e.action.endswith('OperationInvokedReport')]
            if reports:
                self.findings.append((f'{P}/unknown-operation-reported', f'{len(reports)} reports sent'))
            if res is not None:
                self.calls.append({'tx': res.InvocationInfo.TransactionId, 'unknown': True})
            return
        if step[0] == 'burst':
            if self.bursts >= 1:  # (every refused request costs the provider's 1 s queue timeout in real time)
                return
            self.bursts += 1
            for _ in range(step[3]):
                self.step(['call', step[1], step[2], 'Fin', 'queued'])
            return
        _, ci, oi, behaviour, mode = step
        if mode == 'queued' and self.pending >= 12:
            return
        consumer, _ = self.consumers[ci % len(self.consumers)]
        handle, kind, op = self.ops[oi % len(self.ops)]
        self._install(op, behaviour, mode)
        log0 = len(L.NET.log)
        try:
            fut = self._invoke(consumer, handle, kind)
        except Exception as ex:  # noqa: BLE001
            if not R.exc_in_library(ex):
                raise
            if mode == 'queued' and self.pending >= 10:
                # the worker queue is full: the provider refuses the request with a fault, i.e. it does not accept it
                self.refused += 1
                return
            self.findings.append((f'{P}/call-raises/{kind}/{R.exc_sig(ex)}', f'{step}: {str(ex)[:300]}'))
            return
        if mode == 'queued':
            self.pending += 1
            self.max_in_flight = max(self.max_in_flight, self.pending)
        # the response is the last POST answered to this consumer's request
        resp = None
        for e in L.NET.log[log0:]:
            if e.response and (b'Response' in e.response[:4000]) and e.action and not e.action.endswith('Report'):
                req_mid = etree.fromstring(e.request).findtext(
                    '{http://www.w3.org/2003/05/soap-envelope}Header/{http://www.w3.org/2005/08/addressing}MessageID')
                self.by_message_id[req_mid] = behaviour
                root = etree.fromstring(e.response)
                inv = root.find(f'.//{{{MSG_NS}}}InvocationInfo')
                if inv is not None:
                    resp = (int(inv.findtext(f'{{{MSG_NS}}}TransactionId')), inv.findtext(f'{{{MSG_NS}}}InvocationState'))
        if resp is None:
            self.findings.append((f'{P}/no-response/{kind}', f'{step}: no Set response found on the wire'))
            return
        expect = 'Fail' if behaviour in ('Fail', 'raise', 'raise_bare') else behaviour
        self.calls.append({'tx': resp[0], 'consumer': ci % len(self.consumers), 'expect': expect, 'mode': mode,
                           'behaviour': behaviour, 'future': fut, 'response_state': resp[1], 'kind': kind, 'step': step})

    def idle_then_drain(self, mode):
        """One idle second of the worker (time-out check; with mode 'raise' the check of one operation raises, as a
        failing application time-out handler would), then everything queued is processed.  The worker loop survives."""
        victim = self.ops[0][2]
        if mode == 'raise':
            def failing_check():
                raise RuntimeError('vf: the time-out handler of the application failed')
            victim.check_timeout = failing_check
        try:
            self.world.run_sco(idle_first=True)
        except Exception as ex:  # noqa: BLE001
            if not (R.exc_in_library(ex) or isinstance(ex, RuntimeError)):
                raise
            self.findings.append((f'{P}/worker-loop-dies/{type(ex).__name__}',
                                  f'an exception during the idle time-out check ended the operations worker: {ex}'[:200]))
        finally:
            victim.__dict__.pop('check_timeout', None)
            for reg in self.world.provider._sco_operations_registries.values():  # noqa: SLF001
                q = reg._worker._operations_queue if reg._worker is not None else None  # noqa: SLF001
                if q is not None:
                    q.__dict__.pop('get', None)

    def reports_by_consumer(self):
        """{consumer netloc: [(tx, state, error, message)] in delivery order}"""
        out = {}
        for e in L.NET.log:
            if e.action and e.action.endswith('OperationInvokedReport') and e.status == 200:
                root = etree.fromstring(e.request)
                for part in root.iter(f'{{{MSG_NS}}}ReportPart'):
                    inv = part.find(f'{{{MSG_NS}}}InvocationInfo')
                    out.setdefault(e.netloc, []).append((
                        int(inv.findtext(f'{{{MSG_NS}}}TransactionId')), inv.findtext(f'{{{MSG_NS}}}InvocationState'),
                        inv.findtext(f'{{{MSG_NS}}}InvocationError'), inv.findtext(f'{{{MSG_NS}}}InvocationErrorMessage')))
        return out

    def final_checks(self):
        self.world.run_sco()
        out = self.findings
        txs = [c['tx'] for c in self.calls]
        if any(b <= a for a, b in zip(txs, txs[1:])):
            out.append((f'{P}/transaction-ids-not-increasing', f'transaction ids in call order: {txs}'))
        reports = self.reports_by_consumer()
        netlocs = sorted(reports)
        for c in self.calls:
            if c.get('unknown'):
                for seq in reports.values():
                    if any(t == c['tx'] for t, *_ in seq):
                        out.append((f'{P}/unknown-operation-reported', f'transaction {c["tx"]} reported'))
                continue
            for nl in netlocs:
                seq = [(s, err, msg) for t, s, err, msg in reports[nl] if t == c['tx']]
                states = ' '.join(s for s, _e, _m in seq)
                if not re.fullmatch(r'(Wait Start )?(Fin|FinMod|Fail|Cnclld|CnclldMan)', states):
                    out.append((f'{P}/illegal-report-sequence/{c["mode"]}/{c["behaviour"]}',
                                f'transaction {c["tx"]} ({c["step"]}): reports to {nl}: "{states}"'))
                    continue
                final = seq[-1]
                if (c['mode'] == 'queued') != states.startswith('Wait'):
                    out.append((f'{P}/wait-start-mismatch/{c["mode"]}', f'transaction {c["tx"]}: {c["mode"]} but reports "{states}"'))
                if final[0] != c['expect']:
                    out.append((f'{P}/wrong-final-state/{c["mode"]}/{c["behaviour"]}',
                                f'transaction {c["tx"]}: handler {c["behaviour"]}, final report state {final[0]}'))
                if c['behaviour'] in ('raise', 'raise_bare') and (final[1] is None or not final[2]):
                    out.append((f'{P}/raise-without-error-info/{c["mode"]}', f'transaction {c["tx"]}: error={final[1]} message={final[2]}'))
            want_resp = 'Wait' if c['mode'] == 'queued' else c['expect']
            if c['response_state'] != want_resp:
                out.append((f'{P}/response-state/{c["mode"]}/{c["behaviour"]}',
                            f'transaction {c["tx"]} ({c["step"]}): response says {c["response_state"]}, '
                            f'{"queued => Wait" if c["mode"] == "queued" else "final state is " + c["expect"]}'))
            fut = c['future']
            if not fut.done():
                out.append((f'{P}/future-not-done/{c["mode"]}/{c["behaviour"]}', f'transaction {c["tx"]}: result handle not completed'))
            else:
                res = fut.result()
                if res.InvocationInfo.InvocationState.value != c['expect'] and c['response_state'] == want_resp:
                    out.append((f'{P}/future-wrong-state/{c["mode"]}/{c["behaviour"]}',
                                f'transaction {c["tx"]}: result state {res.InvocationInfo.InvocationState.value}, expected {c["expect"]}'))
        # every transaction id that shows up in reports follows the protocol - also the ids of requests that were refused
        # (queue full) or that the harness does not know for another reason
        known = {c['tx'] for c in self.calls}
        for nl in netlocs:
            by_tx = {}
            for t, s, _e, _m in reports[nl]:
                by_tx.setdefault(t, []).append(s)
            for t, states in sorted(by_tx.items()):
                if t not in known and not re.fullmatch(r'(Wait Start )?(Fin|FinMod|Fail|Cnclld|CnclldMan)', ' '.join(states)):
                    out.append((f'{P}/illegal-report-sequence/unanswered-request',
                                f'transaction {t} (no response carried this id; {self.refused} requests were refused): '
                                f'reports to {nl}: "{" ".join(states)}"'))
                    break
        return out


def e2e_case(ctx, hist):
    r = E2E()
    try:
        for step in hist:
            r.step(step)
            if r.findings:
                break
        findings = r.final_checks()
    finally:
        r.close()
    nontrivial = any(s[0] == 'call' and s[3] in ('Fail', 'raise', 'raise_bare') for s in hist) or r.max_in_flight >= 2
    ctx.case(hist, nontrivial, 'e2e', classes=tuple({f'{s[3]}/{s[4]}' for s in hist if s[0] == 'call'}) + (
        ('in-flight>=2',) if r.max_in_flight >= 2 else ()) + (('queue-overflow',) if r.refused else ()) + (
        ('in-flight>10-accepted',) if r.max_in_flight > 10 else ()))
    return findings


# ----------------------------------------------------------------------------------------------------- opmgr

_MSG = {}


def _factory():
    if 'f' not in _MSG:
        import sdc11073.definitions_sdc as defs
        from sdc11073.pysoap.msgfactory import MessageFactory
        from sdc11073.pysoap.msgreader import MessageReader
        log = logging.getLogger('vf.c09')
        _MSG['f'] = (MessageFactory(defs.SdcV1Definitions, None, log, validate=False),
                     MessageReader(defs.SdcV1Definitions, None, log, validate=False), defs.SdcV1Definitions)
    return _MSG['f']


def mk_response(tx, state):
    from sdc11073.xml_types.addressing_types import HeaderInformationBlock
    factory, reader, defs = _factory()
    mt = defs.data_model.msg_types
    resp = mt.SetStringResponse()
    resp.InvocationInfo.TransactionId = tx
    resp.InvocationInfo.InvocationState = mt.InvocationState(state)
    resp.MdibVersion = 1
    resp.SequenceId = 'urn:uuid:1'
    msg = factory.mk_soap_message(HeaderInformationBlock(action=resp.action), payload=resp)
    return reader.read_received_message(msg.serialize(validate=False))


def mk_report(tx, state, marker):
    from sdc11073.xml_types.addressing_types import HeaderInformationBlock
    factory, reader, defs = _factory()
    mt = defs.data_model.msg_types
    rep = mt.OperationInvokedReport()
    rep.MdibVersion = 1
    rep.SequenceId = 'urn:uuid:1'
    part = rep.add_report_part()
    part.InvocationInfo.TransactionId = tx
    part.InvocationInfo.InvocationState = mt.InvocationState(state)
    part.OperationHandleRef = 'op'
    part.OperationTarget = marker  # identifies the part in report_parts
    part.InvocationSource = defs.data_model.pm_types.InstanceIdentifier('urn:x', extension_string='y')
    msg = factory.mk_soap_message(HeaderInformationBlock(action=rep.action), payload=rep)
    return reader.read_received_message(msg.serialize(validate=False))


class CountingFuture:
    """Wraps the Future a call returned: counts completions through the patched set_result."""


def opmgr_case(ctx, case):
    """case: {'txs': [{'tx': id, 'parts': [states], 'resp': state, 'dup_final': bool}], 'order': [[tx index, event index]]}

    event index < len(parts): report part; == len(parts): the response; == len(parts)+1: duplicated final part.
    """
    from concurrent.futures import Future

    from sdc11073.consumer.operations import OperationsManager
    _f, reader, _d = _factory()
    mgr = OperationsManager(reader, 'vf')
    txs = case['txs']
    futures = {}
    set_calls = {}
    delivered = {i: [] for i in range(len(txs))}
    out = []
    early = False

    class Client:
        def __init__(self, message_data):
            self._md = message_data

        def post_message(self, message, msg='', request_manipulator=None):  # noqa: ARG002
            return self._md

    orig_set = Future.set_result

    def counting_set(self, result):
        set_calls[id(self)] = set_calls.get(id(self), 0) + 1
        return orig_set(self, result)
    Future.set_result = counting_set
    try:
        for ti, ei in case['order']:
            t = txs[ti]
            nparts = len(t['parts'])
            try:
                if ei == nparts:
                    if delivered[ti]:
                        early = True
                    futures[ti] = mgr.call_operation(Client(mk_response(t['tx'], t['resp'])), None)
                else:
                    k = nparts - 1 if ei > nparts else ei
                    marker = f't{ti}e{ei}'
                    mgr.on_operation_invoked_report(mk_report(t['tx'], t['parts'][k], marker))
                    delivered[ti].append((marker, t['parts'][k]))
            except Exception as ex:  # noqa: BLE001
                if not R.exc_in_library(ex):
                    raise
                out.append((f'{P}/opmgr/raises/{R.exc_sig(ex)}', f'{case}: {type(ex).__name__}: {ex}'[:300]))
                break
    finally:
        Future.set_result = orig_set
    if not out:
        for ti, t in enumerate(txs):
            fut = futures.get(ti)
            final_state = t['parts'][-1]
            if fut is None:
                continue
            if not fut.done():
                out.append((f'{P}/opmgr/future-not-done', f'{case}: transaction {t["tx"]} not completed'))
                continue
            n = set_calls.get(id(fut), 0)
            if n != 1:
                out.append((f'{P}/opmgr/completed-{n}-times', f'{case}: transaction {t["tx"]}'))
            res = fut.result()
            shortcut = t['resp'] in ('Fail', 'Cnclld', 'CnclldMan')
            got_state = res.InvocationInfo.InvocationState.value
            if got_state != (t['resp'] if shortcut else final_state):
                out.append((f'{P}/opmgr/wrong-final-state', f'{case}: transaction {t["tx"]} result {got_state}'))
            if not shortcut:
                # all parts of this transaction delivered up to and including the (first) final one, in delivery order
                want = []
                for marker, state in delivered[ti]:
                    want.append(marker)
                    if state in FINAL:
                        break
                got = [p.OperationTarget for p in res.report_parts]
                if got != want:
                    out.append((f'{P}/opmgr/report-parts', f'{case}: transaction {t["tx"]} report_parts {got}, delivered {want}'))
    ctx.case(case, early, 'opmgr')
    return out


def merges(seqs):
    """All interleavings of the given sequences (each keeps its own order)."""
    if all(not s for s in seqs):
        yield []
        return
    for i, s in enumerate(seqs):
        if s:
            rest = list(seqs)
            rest[i] = s[1:]
            for m in merges(rest):
                yield [s[0], *m]


def opmgr_cases(n_tx, sample=None, seed=0):
    shapes = [(['Wait', 'Start', 'Fin'], 'Wait'), (['Wait', 'Start', 'Fail'], 'Wait'), (['Fin'], 'Fin'), (['Fail'], 'Fail'),
              (['FinMod'], 'FinMod'), (['Wait', 'Start', 'FinMod'], 'Wait')]
    import random
    rng = random.Random(seed)
    for combo in itertools.product(shapes, repeat=n_tx):
        for dups in itertools.product([False, True], repeat=n_tx):
            txs = [{'tx': 10 + i, 'parts': c[0], 'resp': c[1], 'dup_final': d} for i, (c, d) in enumerate(zip(combo, dups))]
            per_tx = []
            for i, t in enumerate(txs):
                n = len(t['parts'])
                variants = []
                for pos in range(n + 1):  # position of the response among the parts
                    ev = [[i, k] for k in range(n)]
                    ev.insert(pos, [i, n])
                    if t['dup_final']:
                        ev.append([i, n + 1])
                    variants.append(ev)
                per_tx.append(variants)
            for choice in itertools.product(*per_tx):
                all_merges = merges([list(c) for c in choice])
                if sample is None:
                    for order in all_merges:
                        yield {'txs': txs, 'order': order}
                else:
                    lst = list(itertools.islice(all_merges, 400))
                    for order in rng.sample(lst, min(sample, len(lst))):
                        yield {'txs': txs, 'order': order}


def shard_opmgr(ctx, n_tx, part, nparts, sample):
    W.quiet_logging()
    for i, case in enumerate(opmgr_cases(n_tx, sample, seed=ctx.sub_seed('opmgr'))):
        if i % nparts != part:
            continue
        if ctx.out_of_budget(0.8):
            break
        for sig, detail in opmgr_case(ctx, case):
            ctx.finding(sig, detail, case, 'opmgr')


def shard_e2e(ctx, n):
    R.hyp_campaign(ctx, 'e2e', st_history(), lambda h: e2e_case(ctx, h), n)


# ---- transaction ids under concurrent request threads (cooperative scheduler, exhaustive over the schedules)
def txid_run(n_consumers, calls_each, choices):
    """Concurrent invocations by several consumers; yield points: acquire / release of the provider's transaction id
    lock.  -> (findings, taken, branching)"""
    from vf import sched as S
    e = E2E(n_consumers=n_consumers)
    findings = []
    sched = S.Sched(choices, default='first')
    provider = e.world.provider
    saved = provider._transaction_id_lock  # noqa: SLF001
    try:
        handle, kind, op = next(x for x in e.ops if x[1] == 'SetStringOperation')
        e._install(op, 'Fin', 'direct')  # noqa: SLF001
        provider._transaction_id_lock = S.SchedLock(sched, 'transaction_id_lock', reentrant=False)  # noqa: SLF001
        log0 = len(L.NET.log)

        def caller(consumer):
            def body():
                for _ in range(calls_each):
                    e._invoke(consumer, handle, kind)  # noqa: SLF001
            return body
        for i, (consumer, _m) in enumerate(e.consumers):
            sched.spawn(f'c{i}', caller(consumer))
        sched.run()
        for t in sched.tasks:
            if t.exc is not None:
                if not R.exc_in_library(t.exc):
                    raise t.exc
                findings.append((f'{P}/txid/call-raises/{R.exc_sig(t.exc)}', str(t.exc)[:200]))
        ids = []
        for entry in L.NET.log[log0:]:
            if entry.response and entry.action and entry.action.endswith('/SetString'):
                inv = etree.fromstring(entry.response).find(f'.//{{{MSG_NS}}}InvocationInfo')
                if inv is not None:
                    ids.append(int(inv.findtext(f'{{{MSG_NS}}}TransactionId')))
        if len(ids) != n_consumers * calls_each and not findings:
            findings.append((f'{P}/txid/response-missing', f'{len(ids)} responses for {n_consumers * calls_each} calls'))
        dup = sorted({i for i in ids if ids.count(i) > 1})
        if dup:
            findings.append((f'{P}/txid/transaction-id-not-unique',
                             f'{n_consumers} consumers x {calls_each} concurrent calls got transaction ids {ids}: {dup} '
                             f'handed out more than once'))
    finally:
        provider._transaction_id_lock = saved  # noqa: SLF001
        e.close()
    return findings, list(sched.taken), list(sched.branching)


def shard_txid(ctx, n_consumers, calls_each, max_schedules):
    from vf import sched as S
    choices, count, complete = [], 0, False
    while choices is not None and count < max_schedules and not ctx.out_of_budget():
        findings, taken, branching = txid_run(n_consumers, calls_each, choices)
        count += 1
        case = {'consumers': n_consumers, 'calls_each': calls_each, 'choices': taken}
        ctx.case(case, any(taken), 'txid')
        for sig, detail in findings:
            ctx.finding(sig, detail, case, 'txid')
        choices = S.next_dfs(taken, branching)
        complete = choices is None
    ctx.count('txid/scenarios-complete' if complete else 'txid/scenarios-truncated')


# ---- the consumer OperationsManager under the cooperative scheduler: caller thread vs notification thread
def opsched_run(shape, n_tx, choices):
    """One caller task per transaction (call_operation; the response is 'in flight' at a yield point inside post_message)
    and one notification task that delivers the report parts of all transactions in order.  Yield points: the in-flight
    point and every acquire / release of OperationsManager._transactions_lock.  -> (findings, taken, branching)"""
    from concurrent.futures import Future

    from sdc11073.consumer.operations import OperationsManager

    from vf import sched as S
    _f, reader, _d = _factory()
    parts, resp = shape
    mgr = OperationsManager(reader, 'vf')
    sched = S.Sched(choices, default='first')
    mgr._transactions_lock = S.SchedLock(sched, 'transactions_lock', reentrant=False)  # noqa: SLF001
    futures, set_calls, out = {}, {}, []

    class Client:
        def __init__(self, message_data):
            self._md = message_data

        def post_message(self, message, msg='', request_manipulator=None):  # noqa: ARG002
            sched.yield_point('response-in-flight')
            return self._md

    orig_set = Future.set_result

    def counting_set(self, result):
        set_calls[id(self)] = set_calls.get(id(self), 0) + 1
        return orig_set(self, result)

    def caller(i):
        def body():
            futures[i] = mgr.call_operation(Client(mk_response(10 + i, resp)), None)
        return body

    def notifier():
        for k, state in enumerate(parts):
            for i in range(n_tx):
                mgr.on_operation_invoked_report(mk_report(10 + i, state, f't{i}e{k}'))
    for i in range(n_tx):
        sched.spawn(f'call{i}', caller(i))
    sched.spawn('notify', notifier)
    Future.set_result = counting_set
    try:
        sched.run()
    finally:
        Future.set_result = orig_set
    for t in sched.tasks:
        if t.exc is not None:
            if not R.exc_in_library(t.exc):
                raise t.exc
            out.append((f'{P}/opsched/raises/{R.exc_sig(t.exc)}', f'{type(t.exc).__name__}: {t.exc}'[:300]))
    if not out:
        shortcut = resp in ('Fail', 'Cnclld', 'CnclldMan')
        for i in range(n_tx):
            fut = futures.get(i)
            where = f'parts {parts}, response {resp}, schedule {sched.trace}'
            if fut is None or not fut.done():
                out.append((f'{P}/opsched/future-not-done', f'transaction {10 + i} never completes although its final report '
                                                            f'was delivered: {where}'[:600]))
                continue
            if set_calls.get(id(fut), 0) != 1:
                out.append((f'{P}/opsched/completed-{set_calls.get(id(fut), 0)}-times', where[:600]))
            res = fut.result()
            if res.InvocationInfo.InvocationState.value != (resp if shortcut else parts[-1]):
                out.append((f'{P}/opsched/wrong-final-state', f'{res.InvocationInfo.InvocationState.value}: {where}'[:600]))
            if not shortcut:
                got = [p.OperationTarget for p in res.report_parts]
                want = [f't{i}e{k}' for k in range(len(parts))]
                if got != want:
                    out.append((f'{P}/opsched/report-parts', f'report_parts {got}, delivered {want}: {where}'[:600]))
    return out, list(sched.taken), list(sched.branching)


OPSCHED_SHAPES = [(['Wait', 'Start', 'Fin'], 'Wait'), (['Fin'], 'Fin'), (['Wait', 'Start', 'Fail'], 'Wait'), (['Fail'], 'Fail'),
                  (['FinMod'], 'FinMod')]


def shard_opsched(ctx, n_tx, shape_index, max_schedules):
    from vf import sched as S
    W.quiet_logging()
    for n_tx in (n_tx,):  # noqa: B020, PLR1704
        for shape in (OPSCHED_SHAPES[shape_index],):
            choices, count, complete = [], 0, False
            while choices is not None and count < max_schedules and not ctx.out_of_budget():
                findings, taken, branching = opsched_run(shape, n_tx, choices)
                count += 1
                case = {'shape': list(shape), 'n_tx': n_tx, 'choices': taken}
                ctx.case(case, any(taken), 'opsched')
                for sig, detail in findings:
                    ctx.finding(sig, detail, case, 'opsched')
                choices = S.next_dfs(taken, branching)
                complete = choices is None
            ctx.count('opsched/scenarios-complete' if complete else 'opsched/scenarios-truncated')


def run(ctx):
    q = ctx.tier == 'quick'
    R.run_shards(ctx, __name__, 'shard_opmgr', [(1, 0, 1, None)] + [(2, i, 7, None if not q else 3) for i in range(7)])
    if not q:
        ctx.exhaustive_parts.append('opmgr')
        R.run_shards(ctx, __name__, 'shard_opmgr', [(3, i, 16, 2) for i in range(16)])
    R.run_shards(ctx, __name__, 'shard_e2e', [(20 if q else 300,)] * (R.NPROC - 2))
    R.run_shards(ctx, __name__, 'shard_opsched', [(n, i, 400 if q else 30000) for n in (1, 2) for i in range(len(OPSCHED_SHAPES))])
    R.run_shards(ctx, __name__, 'shard_txid', [(2, 1, 40), (2, 2, 40 if q else 400)] if q else [
        (2, 1, 100), (2, 2, 400), (3, 1, 400), (3, 2, 1500)])


def replay(part, case):
    ctx = R.Ctx(P, 'quick', 0, {})
    W.quiet_logging()
    if part == 'opmgr':
        return opmgr_case(ctx, case)
    if part == 'txid':
        return txid_run(case['consumers'], case['calls_each'], case['choices'])[0]
    if part == 'opsched':
        return opsched_run(tuple(case['shape']), case['n_tx'], case['choices'])[0]
    return e2e_case(ctx, case)
