"""C10 - context association invariants hold after any sequence of context changes.

Histories of SdcProvider.set_location and SetContextState invocations (through the consumer's context service client,
the loop-back transport, the real SetService/SCO and the tutorial context role provider; queued operations are
processed by the real worker loop run inline).
"""
from __future__ import annotations

import collections

from hypothesis import strategies as st
from lxml import etree

from vf import canon as C
from vf import loopback as L
from vf import run as R
from vf import world as W
from vf.gen import mdibprog as MP

P = 'C10'
META = {
    'level': 'exploration',
    'rule': ('histories (<= 14 steps) of set_location(loc) and SetContextState proposals (new / update / associate / '
             'disassociate / re-associate an old state / several states at once / two associated states / unknown state '
             'handle) on tests/mdib_two_mds.xml (plus an ensemble and a workflow context descriptor) with the tutorial role providers; non-trivial = >= 3 association changes '
             'on one descriptor, or a proposal touching >= 2 states; distinct by history. part sched: 2-3 concurrent '
             'context changes (SetContextState by different consumers processed in the request thread, set_location by '
             'the application) after a short history, interleaved at lock granularity by the cooperative scheduler; '
             'invariants judged on per-MdibVersion snapshots; non-trivial = >= 2 task switches'),
    'assumptions': ['the SetContextState operation of the fixture targets the patient context; location changes go through '
                    'SdcProvider.set_location'],
}

FIXTURE = 'mdib_two_mds_ctx.xml'  # (the repository's fixture plus an ensemble and a workflow context descriptor)
ASSOC = ['Assoc', 'Dis', 'No', 'Pre']


def st_history():
    proposal = st.fixed_dictionaries({
        'target': st.one_of(st.just('new'), st.integers(0, 5), st.just('unknown')),
        'assoc': st.sampled_from(ASSOC + ['Assoc', 'Assoc']),
        'given': st.one_of(st.none(), st.sampled_from(['Ann', 'Bob', 'Ünal', ''])),
        # which context descriptor the proposal belongs to: 0 = the operation target (patient), 1.. = the others
        # (location, ...) of the same MDS - "for one or several context descriptors"
        'descr': st.sampled_from([0, 0, 0, 1, 1, 2, 2, 3]),
    })
    step = st.one_of(
        st.tuples(st.just('set_ctx'), st.lists(proposal, min_size=1, max_size=3)).map(list),
        st.tuples(st.just('set_ctx'), st.lists(proposal, min_size=1, max_size=1)).map(list),
        st.tuples(st.just('set_location'), MP.st_location()).map(list),
    )
    return st.lists(step, min_size=1, max_size=14)


class Runner:
    def __init__(self):
        from vf.props import c01
        c01.park_role_workers()
        L.reset_network()
        self.world = W.World(W.fixture(FIXTURE))
        self.world.inline_sco()
        self.consumer, self.cmdib = self.world.add_consumer(init_mdib=True)
        self.mdib = self.world.mdib
        inv = MP.inventory(FIXTURE)
        self.loc_descr = inv.location_descriptors[0]
        self.op_handle = None
        for d in self.mdib.descriptions.objects:
            if type(d).__name__ == 'SetContextStateOperationDescriptorContainer':
                self.op_handle, self.op_target = d.Handle, d.OperationTarget
        ctx_descr = [h for h, _c in inv.context_descriptors if h != self.op_target]
        same_mds = [h for h in ctx_descr if h.endswith(self.op_target.split('.')[-1])] or ctx_descr
        self.ctx_descriptors = [self.op_target] + [h for h in same_mds if h == self.loc_descr] + [
            h for h in same_mds if h != self.loc_descr]
        self.prev = self.assoc_map()
        self.changes = {}
        self.multi = False
        self.other_descr = False
        self.findings = []

    def close(self):
        self.world.close()

    def assoc_map(self):
        return {s.Handle: (s.DescriptorHandle, str(s.ContextAssociation.value)) for s in self.mdib.context_states.objects}

    def invariants(self, step, committed_version):
        mdib = self.mdib
        out = []
        by_descr = {}
        handles = []
        for s in mdib.context_states.objects:
            handles.append(s.Handle)
            if s.ContextAssociation.value == 'Assoc':
                by_descr.setdefault(s.DescriptorHandle, []).append(s.Handle)
        for d, hs in by_descr.items():
            if len(hs) > 1:
                out.append((f'{P}/two-associated/{step[0]}', f'descriptor {d} has {len(hs)} associated states {sorted(hs)} after '
                                                             f'{R.short(step, 200)}'))
        if len(handles) != len(set(handles)):
            out.append((f'{P}/duplicate-state-handle/{step[0]}', f'{sorted(h for h in handles if handles.count(h) > 1)[:3]}'))
        now = self.assoc_map()
        states = {s.Handle: s for s in mdib.context_states.objects}
        for h, (d, assoc) in now.items():
            before = self.prev.get(h, (d, None))[1]
            s = states[h]
            if before == 'Assoc' and assoc != 'Assoc':
                self.changes[d] = self.changes.get(d, 0) + 1
                if assoc != 'Dis':
                    out.append((f'{P}/left-association-not-disassociated/{step[0]}',
                                f'state {h} was associated and is now {assoc!r} after {R.short(step, 200)}'))
                if s.UnbindingMdibVersion is None or s.BindingEndTime is None:
                    out.append((f'{P}/unbinding-not-set/{step[0]}', f'state {h} stopped being associated: '
                                f'UnbindingMdibVersion={s.UnbindingMdibVersion} BindingEndTime={s.BindingEndTime}'))
                elif s.UnbindingMdibVersion != committed_version:
                    out.append((f'{P}/unbinding-version-wrong/{step[0]}',
                                f'state {h} stopped being associated at MdibVersion {committed_version}, '
                                f'UnbindingMdibVersion is {s.UnbindingMdibVersion}'))
            if before != 'Assoc' and assoc == 'Assoc':
                self.changes[d] = self.changes.get(d, 0) + 1
                kind = 'new' if before is None else 're-associated'
                if s.BindingMdibVersion is None or s.BindingStartTime is None:
                    out.append((f'{P}/binding-not-set/{kind}/{step[0]}', f'state {h} became associated: '
                                f'BindingMdibVersion={s.BindingMdibVersion} BindingStartTime={s.BindingStartTime}'))
                elif s.BindingMdibVersion != committed_version:
                    out.append((f'{P}/binding-version-wrong/{kind}/{step[0]}',
                                f'state {h} became associated at MdibVersion {committed_version}, BindingMdibVersion is '
                                f'{s.BindingMdibVersion}'))
        self.prev = now
        return out

    def reports_agree(self, step, first_log_index):
        """Context states carried by EpisodicContextReports of this step equal the provider's states."""
        out = []
        states = {s.Handle: s for s in self.mdib.context_states.objects}
        for entry in L.NET.log[first_log_index:]:
            if not entry.action or not entry.action.endswith('EpisodicContextReport'):
                continue
            root = etree.fromstring(entry.request)
            for node in root.iter('{http://standards.ieee.org/downloads/11073/11073-10207-2017/message}ContextState'):
                h = node.get('Handle')
                s = states.get(h)
                if s is None:
                    continue
                for attr, val in (('ContextAssociation', s.ContextAssociation.value),
                                  ('BindingMdibVersion', s.BindingMdibVersion), ('UnbindingMdibVersion', s.UnbindingMdibVersion)):
                    got = node.get(attr)
                    want = None if val is None else str(val)
                    if attr == 'ContextAssociation' and got is None:
                        got = 'No'
                    if got != want and int(root.find('.//{*}EpisodicContextReport').get('MdibVersion', 0)) == self.mdib.mdib_version:
                        out.append((f'{P}/report-differs/{attr}', f'report says {attr}={got} for {h}, table has {want}'))
        return out

    def build_proposals(self, client, specs):
        """-> (proposed states, Counter of proposed associated states per descriptor, contains an unknown state handle)"""
        mdib = self.mdib
        proposals = []
        assoc_count = collections.Counter()
        unknown = False
        used = set()
        pm = mdib.data_model.pm_types
        for p in specs:
            t = p['target']
            target_descr = self.ctx_descriptors[p.get('descr', 0) % len(self.ctx_descriptors)]
            if target_descr != self.op_target:
                self.other_descr = True
            existing = sorted(s.Handle for s in mdib.context_states.objects if s.DescriptorHandle == target_descr)
            if t == 'new' or (isinstance(t, int) and not existing):
                st_ = client.mk_proposed_context_object(target_descr)
            elif t == 'unknown':
                st_ = client.mk_proposed_context_object(target_descr)
                st_.Handle = 'vf_no_such_state'  # differs from the descriptor handle: an update of an unknown state
                unknown = True
            else:
                h = existing[t % len(existing)]
                if h in used:
                    continue
                used.add(h)
                st_ = client.mk_proposed_context_object(target_descr, h)
            assoc = p['assoc']
            if st_.ContextAssociation.value == 'Assoc' and assoc in ('No', 'Pre'):
                assoc = 'Dis'  # an associated context can only be left by disassociating it (BICEPS life cycle)
            st_.ContextAssociation = pm.ContextAssociation(assoc)
            if p['given'] is not None and hasattr(st_, 'CoreData'):
                st_.CoreData.Givenname = p['given']
            if assoc == 'Assoc':
                assoc_count[target_descr] += 1
            proposals.append(st_)
        return proposals, assoc_count, unknown

    def step(self, step):
        mdib = self.mdib
        before = C.canon_mdib(mdib)
        v0 = mdib.mdib_version
        log0 = len(L.NET.log)
        if step[0] == 'set_location':
            from sdc11073.location import SdcLocation
            self.world.provider.set_location(SdcLocation(**step[1]), publish_now=False,
                                             location_context_descriptor_handle=self.loc_descr)
            expect_reject = False
            result_state = None
        else:
            client = self.consumer.client('Context')
            proposals, assoc_count, unknown = self.build_proposals(client, step[1])
            if not proposals:
                return
            if len(proposals) >= 2:
                self.multi = True
            expect_reject = unknown or any(n > 1 for n in assoc_count.values())
            try:
                future = client.set_context_state(self.op_handle, proposals)
                self.world.run_sco()
                result = future.result(timeout=5)
                result_state = result.InvocationInfo.InvocationState.value
            except Exception as ex:  # noqa: BLE001
                if not R.exc_in_library(ex):
                    raise
                self.findings.append((f'{P}/set_context_state-raises/{R.exc_sig(ex)}', f'{R.short(step, 200)}: {ex}'[:300]))
                return
        v1 = mdib.mdib_version
        if expect_reject:
            after = C.canon_mdib(mdib)
            if result_state != 'Fail':
                self.findings.append((f'{P}/invalid-proposal-not-failed', f'{R.short(step, 200)} reported {result_state}'))
            d = C.diff_mdib(before, after)
            if d:
                self.findings.append((f'{P}/rejected-proposal-changed-mdib', f'{R.short(step, 200)}: '
                                                                             f'{[list(map(str, x)) for x in d[:2]]}'))
            self.prev = self.assoc_map()
            return
        if v1 - v0 > 1:
            # several commits in one step: association changes are attributed to the last one only if they are visible now
            pass
        self.findings += self.invariants(step, v1)
        self.findings += self.reports_agree(step, log0)

    def run(self, history):
        for step in history:
            self.step(step)
            if self.findings:
                break
        return self.findings


# ------------------------------------------------------------------------- part: concurrent context changes (scheduler)
def st_sched_case():
    """A short sequential history, then 2-3 concurrent context changes (SetContextState invocations by different
    consumers, processed in the request thread, and set_location by the application) under the cooperative scheduler."""
    proposal = st.fixed_dictionaries({
        'target': st.one_of(st.just('new'), st.integers(0, 5)), 'assoc': st.sampled_from(['Assoc', 'Assoc', 'Dis', 'No']),
        'given': st.one_of(st.none(), st.sampled_from(['Ann', 'Bob'])), 'descr': st.sampled_from([0, 0, 1, 1, 2, 3])})
    task = st.one_of(st.tuples(st.just('set_ctx'), st.lists(proposal, min_size=1, max_size=2)).map(list),
                     st.tuples(st.just('set_location'), MP.st_location()).map(list))
    return st.fixed_dictionaries({
        'setup': st.lists(st.one_of(st.tuples(st.just('set_location'), MP.st_location()).map(list),
                                    st.tuples(st.just('set_ctx'), st.lists(proposal, min_size=1, max_size=1)).map(list)),
                          max_size=3),
        'tasks': st.lists(task, min_size=2, max_size=3),
        'choices': st.lists(st.integers(0, 3), max_size=12)})


def ctx_snapshot(mdib):
    return {s.Handle: (s.DescriptorHandle, str(s.ContextAssociation.value), s.BindingMdibVersion, s.UnbindingMdibVersion,
                       s.BindingStartTime, s.BindingEndTime) for s in mdib.context_states.objects}


def judge_versions(snaps: dict, label: str):
    """The listed invariants over consecutive per-version snapshots {MdibVersion: {state handle: (...)}}."""
    out = []
    versions = sorted(snaps)
    for v_prev, v in zip(versions, versions[1:]):
        prev, now = snaps[v_prev], snaps[v]
        by_descr = {}
        for h, (d, assoc, *_rest) in now.items():
            if assoc == 'Assoc':
                by_descr.setdefault(d, []).append(h)
        for d, hs in by_descr.items():
            if len(hs) > 1:
                out.append((f'{P}/two-associated/{label}', f'descriptor {d} has associated states {sorted(hs)} at MdibVersion {v}'))
        for h, (d, assoc, bv, uv, bst, bet) in now.items():
            before = prev.get(h, (d, None))[1]
            if before == 'Assoc' and assoc != 'Assoc':
                if assoc != 'Dis':
                    out.append((f'{P}/left-association-not-disassociated/{label}', f'state {h} is {assoc!r} at MdibVersion {v}'))
                elif uv is None or bet is None:
                    out.append((f'{P}/unbinding-not-set/{label}', f'state {h} at MdibVersion {v}: UnbindingMdibVersion={uv} '
                                                                  f'BindingEndTime={bet}'))
                elif uv != v:
                    out.append((f'{P}/unbinding-version-wrong/{label}',
                                f'state {h} stopped being associated at MdibVersion {v}, UnbindingMdibVersion is {uv}'))
            if before != 'Assoc' and assoc == 'Assoc':
                if bv is None or bst is None:
                    out.append((f'{P}/binding-not-set/{label}', f'state {h} at MdibVersion {v}: BindingMdibVersion={bv} '
                                                                f'BindingStartTime={bst}'))
                elif bv != v:
                    out.append((f'{P}/binding-version-wrong/{label}',
                                f'state {h} became associated at MdibVersion {v}, BindingMdibVersion is {bv}'))
    return out


def sched_case(ctx, case):
    from sdc11073.location import SdcLocation

    from vf import sched as S
    r = Runner()
    findings = []
    switches = 0
    try:
        r.consumers = [(r.consumer, r.cmdib)] + [r.world.add_consumer(init_mdib=True) for _ in range(2)]
        for step in case['setup']:
            r.step(step)
        if r.findings:
            return []  # (the sequential part is judged by the history part)
        # SetContextState is processed in the thread of the request
        for reg in r.world.provider._sco_operations_registries.values():  # noqa: SLF001
            for op in reg._registered_operations.values():  # noqa: SLF001
                op.delayed_processing = False
        mdib = r.mdib
        sched = S.Sched(case['choices'], default='continue')
        snaps = {mdib.mdib_version: ctx_snapshot(mdib)}

        def record(_lock):
            snaps.setdefault(mdib.mdib_version, ctx_snapshot(mdib))
        saved = [(mdib, 'mdib_lock', mdib.mdib_lock), (mdib, '_tr_lock', mdib._tr_lock)]  # noqa: SLF001
        tables = []
        mdib.mdib_lock = S.SchedLock(sched, 'mdib_lock', on_release=record)
        mdib._tr_lock = S.SchedLock(sched, 'tr_lock', reentrant=False, yield_when_free=False, yield_after_release=False)  # noqa: SLF001
        from vf.props import c07
        for name in ('descriptions', 'states', 'context_states'):
            table = getattr(mdib, name)
            tables.append((table, table._lock))  # noqa: SLF001
            c07.Runner._set_table_lock(table, S.SchedLock(sched, f'{name}.lock', yield_when_free=False,  # noqa: SLF001
                                                          yield_after_release=False))
        futures = []
        n_ctx = 0
        try:
            for i, task in enumerate(case['tasks']):
                if task[0] == 'set_location':
                    loc = SdcLocation(**task[1])
                    sched.spawn(f't{i}-loc', lambda loc=loc: r.world.provider.set_location(
                        loc, publish_now=False, location_context_descriptor_handle=r.loc_descr))
                    continue
                consumer = r.consumers[n_ctx % len(r.consumers)][0]
                n_ctx += 1
                client = consumer.client('Context')
                proposals = r.build_proposals(client, task[1])[0]
                if not proposals:
                    continue

                def invoke(client=client, proposals=proposals):
                    try:
                        futures.append(client.set_context_state(r.op_handle, proposals))
                    except Exception as ex:  # noqa: BLE001
                        if not R.exc_in_library(ex):
                            raise
                sched.spawn(f't{i}-ctx', invoke)
            if len(sched.tasks) >= 2:  # noqa: PLR2004
                sched.run()
                for t in sched.tasks:
                    if t.exc is not None and not R.exc_in_library(t.exc):
                        raise t.exc
                switches = sum(1 for a, b in zip(sched.trace, sched.trace[1:]) if a[0] != b[0])
        finally:
            for obj, name, value in saved:
                setattr(obj, name, value)
            for table, lock in tables:
                c07.Runner._set_table_lock(table, lock)  # noqa: SLF001
        snaps.setdefault(mdib.mdib_version, ctx_snapshot(mdib))
        findings = judge_versions(snaps, 'concurrent')
        handles = [s.Handle for s in mdib.context_states.objects]
        if len(handles) != len(set(handles)):
            findings.append((f'{P}/duplicate-state-handle/concurrent', f'{sorted(h for h in handles if handles.count(h) > 1)[:3]}'))
    finally:
        r.close()
    ctx.case(case, switches >= 2 and len(case['tasks']) >= 2, 'sched',  # noqa: PLR2004
             classes=tuple(sorted({t[0] for t in case['tasks']})) + (f'switches>={min(switches, 3)}',))
    return findings


def shard_sched(ctx, n):
    W.quiet_logging()
    R.hyp_campaign(ctx, 'sched', st_sched_case(), lambda c: sched_case(ctx, c), n)


def case_fn(ctx, history):
    r = Runner()
    try:
        findings = r.run(history)
    finally:
        r.close()
    nontrivial = r.multi or any(n >= 3 for n in r.changes.values())
    ctx.case(history, nontrivial, 'history', classes=tuple({s[0] for s in history}) + (('multi',) if r.multi else ()) + (
                 ('several-descriptors',) if r.other_descr else ()))
    return findings


def shard(ctx, n):
    W.quiet_logging()
    R.hyp_campaign(ctx, 'history', st_history(), lambda h: case_fn(ctx, h), n)


def shard_any(ctx, which, n):
    (shard_sched if which == 'sched' else shard)(ctx, n)


def run(ctx):
    q = ctx.tier == 'quick'
    # both parts side by side, so that a loaded machine shortens both instead of dropping the second
    R.run_shards(ctx, __name__, 'shard_any', [('history', 52 if q else 650)] * 12 + [('sched', 50 if q else 900)] * 4)


def replay(part, case):
    W.quiet_logging()
    if part == 'sched':
        return sched_case(R.Ctx(P, 'quick', 0, {}), case)
    r = Runner()
    try:
        return r.run(case)
    finally:
        r.close()
