"""C11 - every MDIB lookup always agrees with a scan of the stored objects.

Part `table`:  MultiKeyLookup in isolation. Generated operation lists (add / rejected duplicate add / mutate key
attributes + update_object / remove / remove_objects / clear / update of a non-member / re-add) on a table with
unique, non-unique, 1:n and none-skipping indices.  Oracle after every operation: every index equals the grouping
recomputed from table.objects, back references are consistent, the object set equals a reference set; a rejected
insert leaves (objects, every index, back references) exactly as they were.
Part `mdib`:   the real provider/consumer tables and the provider's subscription tables, audited after every step of
MDIB programs that are biased towards changes of indexed attributes (see c01 runner).
"""
from __future__ import annotations

from hypothesis import strategies as st

from vf import canon as C
from vf import run as R
from vf.gen import mdibprog as MP

P = 'C11'
META = {
    'level': 'exploration',
    'rule': ('part table: operation lists (<= 30) over a MultiKeyLookup with 5 index kinds, objects with generated key '
             'attributes incl. None, lists and missing attributes; part mdib: MDIB programs through provider + consumer '
             'with descriptor updates of ConditionSignaled / Source / parent; non-trivial = an update_object that changed '
             'a key, or a rejected insert followed by further operations; distinct by operation list'),
    'assumptions': ['audit compares index dictionaries with a linear scan using the index key functions themselves'],
}


class Obj:
    """Plain object with optional key attributes; attributes listed in `missing` do not exist at all."""

    def __init__(self, uid, grp, opt, tags, ualt, missing=()):
        self.uid, self.grp, self.opt, self.tags, self.ualt = uid, grp, opt, tags, ualt
        for m in missing:
            delattr(self, m)

    def __repr__(self):
        return f'Obj({self.__dict__})'


def mk_table():
    from sdc11073 import multikey
    t = multikey.MultiKeyLookup()
    t.add_index('grp', multikey.IndexDefinition(lambda o: o.grp))
    t.add_index('opt', multikey.IndexDefinition(lambda o: o.opt, index_none_values=False))
    t.add_index('uid', multikey.UIndexDefinition(lambda o: o.uid))
    t.add_index('tags', multikey.IndexDefinition1n(lambda o: o.tags, index_none_values=False))
    t.add_index('ualt', multikey.UIndexDefinition(lambda o: o.ualt, index_none_values=False))
    t.add_index('late', multikey.IndexDefinition(lambda o: o.grp))
    return t


def deep_state(t):
    objs = frozenset(id(o) for o in t._objects)  # noqa: SLF001
    idx = {name: {k: tuple(id(o) for o in v) for k, v in dict.items(d)} for name, d in t._idx_defs.items()}  # noqa: SLF001
    refs = {oid: tuple((id(r.index_dict), r.key) for r in lst) for oid, lst in t._object_ids.items() if lst or oid in objs}  # noqa: SLF001
    return objs, idx, refs


KEYS = st.sampled_from(['a', 'b', 'c', 'd', None])
UID = st.integers(0, 12)
TAGS = st.one_of(st.none(), st.lists(st.sampled_from(['x', 'y', 'z']), max_size=3, unique=True),
                st.lists(st.sampled_from(['x', 'y']), min_size=2, max_size=3))  # (a key may be listed more than once)
UALT = st.one_of(st.none(), st.integers(100, 108))
MISSING = st.lists(st.sampled_from(['opt', 'tags', 'grp']), max_size=1)


def st_ops():
    new = st.tuples(st.just('add'), UID, KEYS, KEYS, TAGS, UALT, MISSING, st.booleans()).map(list)
    op = st.one_of(
        new, new, new,
        st.tuples(st.just('add_dup'), st.integers(0, 30), KEYS, st.booleans()).map(list),
        st.tuples(st.just('mutate'), st.integers(0, 30), st.sampled_from(['grp', 'opt', 'tags', 'ualt', 'uid']),
                  st.one_of(KEYS, TAGS, UALT, UID), st.booleans()).map(list),
        st.tuples(st.just('remove'), st.integers(0, 30), st.booleans()).map(list),
        st.tuples(st.just('remove_many'), st.lists(st.integers(0, 30), max_size=3), st.booleans()).map(list),
        st.tuples(st.just('clear')).map(list),
        st.tuples(st.just('update_nonmember')).map(list),
        st.tuples(st.just('readd'), st.integers(0, 30), st.booleans()).map(list),
        st.tuples(st.just('remove_nonmember')).map(list),
    )
    return st.lists(op, min_size=1, max_size=30)


def _valid_for(field, value):
    if field == 'tags':
        return value is None or isinstance(value, list)
    if field == 'ualt':
        return value is None or (isinstance(value, int) and value >= 100)
    if field == 'uid':
        return isinstance(value, int) and value < 100
    return value is None or isinstance(value, str)


def run_ops(ops):  # noqa: C901, PLR0912, PLR0915
    t = mk_table()
    model = []  # reference: list of member objects (insertion order)
    findings = []
    stats = {'key_changed': 0, 'rejected_then_more': 0, 'rejected': 0}
    rejected_seen = False

    def members():
        return sorted(model, key=lambda o: id(o))

    for i, op in enumerate(ops):
        name = op[0]
        if rejected_seen:
            stats['rejected_then_more'] += 1
            rejected_seen = False
        try:
            if name == 'add':
                _, uid, grp, opt, tags, ualt, missing, nolock = op
                obj = Obj(uid, grp, opt, tags, ualt, missing)
                dup = any(o.uid == uid for o in model) or (ualt is not None and any(
                    getattr(o, 'ualt', None) == ualt for o in model))
                before = deep_state(t)
                try:
                    (t.add_object_no_lock if nolock else t.add_object)(obj)
                    if dup:
                        findings.append((f'{P}/table/duplicate-accepted', f'op {i}: {obj} added although a unique key exists'))
                    model.append(obj)
                except KeyError:
                    if not dup:
                        findings.append((f'{P}/table/unexpected-reject', f'op {i}: {obj} rejected without duplicate key'))
                    stats['rejected'] += 1
                    rejected_seen = True
                    after = deep_state(t)
                    if after != before:
                        findings.append((f'{P}/table/rejected-insert-changes-table',
                                         f'op {i}: add of {obj} was rejected (KeyError) but the table changed: '
                                         f'objects {len(before[0])}->{len(after[0])}, indices differ: '
                                         f'{[n for n in before[1] if before[1][n] != after[1][n]]}'))
                        # bring the reference model in line with what the table really holds, to keep checking
                        if any(o is obj for o in t._objects):  # noqa: SLF001
                            model.append(obj)
            elif name == 'add_dup':
                _, k, grp, nolock = op
                if not model:
                    continue
                other = model[k % len(model)]
                obj = Obj(other.uid, grp, None, None, None)
                before = deep_state(t)
                try:
                    (t.add_object_no_lock if nolock else t.add_object)(obj)
                    findings.append((f'{P}/table/duplicate-accepted', f'op {i}: second object with uid {obj.uid} accepted'))
                    model.append(obj)
                except KeyError:
                    stats['rejected'] += 1
                    rejected_seen = True
                    after = deep_state(t)
                    if after != before:
                        findings.append((f'{P}/table/rejected-insert-changes-table',
                                         f'op {i}: add of a duplicate uid {obj.uid} was rejected but the table changed: '
                                         f'objects {len(before[0])}->{len(after[0])}, indices differ: '
                                         f'{[n for n in before[1] if before[1][n] != after[1][n]]}'))
                        if any(o is obj for o in t._objects):  # noqa: SLF001
                            model.append(obj)
            elif name == 'mutate':
                _, k, field, value, nolock = op
                if not model or not _valid_for(field, value):
                    continue
                obj = model[k % len(model)]
                if field == 'uid' and any(o.uid == value and o is not obj for o in model):
                    continue  # would be a duplicate; unique-key collisions on update are not in the property
                if field == 'ualt' and value is not None and any(getattr(o, 'ualt', None) == value and o is not obj
                                                                 for o in model):
                    continue
                old = getattr(obj, field, '<missing>')
                setattr(obj, field, value)
                if old != value:
                    stats['key_changed'] += 1
                (t.update_object_no_lock if nolock else t.update_object)(obj)
            elif name == 'remove':
                _, k, nolock = op
                if not model:
                    continue
                obj = model.pop(k % len(model))
                (t.remove_object_no_lock if nolock else t.remove_object)(obj)
            elif name == 'remove_many':
                _, ks, nolock = op
                if not model:
                    continue
                objs = []
                for k in ks:
                    o = model[k % len(model)]
                    if not any(o is x for x in objs):
                        objs.append(o)
                for o in objs:
                    model[:] = [m for m in model if m is not o]
                (t.remove_objects_no_lock if nolock else t.remove_objects)(objs)
            elif name == 'clear':
                t.clear()
                model.clear()
            elif name == 'update_nonmember':
                try:
                    t.update_object(Obj(99, 'a', None, None, None))
                    findings.append((f'{P}/table/update-nonmember-accepted', f'op {i}'))
                except ValueError:
                    pass
            elif name == 'remove_nonmember':
                t.remove_object(Obj(98, 'a', None, None, None))
            elif name == 'readd':
                _, k, nolock = op
                if not model:
                    continue
                (t.add_object_no_lock if nolock else t.add_object)(model[k % len(model)])
        except Exception as ex:  # noqa: BLE001
            if not R.exc_in_library(ex):
                raise
            findings.append((f'{P}/table/op-raises/{name}/{R.exc_sig(ex)}', f'op {i} {op}: {type(ex).__name__}: {ex}'))
        # ---- invariants
        problems = C.audit_table(t, 'table')
        if problems:
            findings.append((f'{P}/table/index-disagrees-with-scan/{_bucket(problems[0])}',
                             f'after op {i} {op}: {problems[:2]}'))
        have = sorted((id(o) for o in t.objects))
        want = sorted((id(o) for o in model))
        if have != want:
            findings.append((f'{P}/table/object-set', f'after op {i} {op}: table holds {len(have)} objects, '
                                                      f'reference model {len(want)}'))
        if findings:
            break
    return findings, stats


def _bucket(problem: str) -> str:
    head = problem.split('[')[0].split(':')[0]
    if 'empty list' in problem:
        return head + '/empty-list-kept'
    if '_object_ids' in problem:
        return '_object_ids'
    return head


def case_fn(ctx, ops):
    findings, stats = run_ops(ops)
    ctx.case(ops, stats['key_changed'] > 0 or stats['rejected_then_more'] > 0, 'table',
             classes=tuple({o[0] for o in ops}) + (('key-changed',) if stats['key_changed'] else ()) + (
                 ('rejected-then-more',) if stats['rejected_then_more'] else ()))
    return findings


def shard_table(ctx, n):
    R.hyp_campaign(ctx, 'table', st_ops(), lambda ops: case_fn(ctx, ops), n)


def shard_mdib(ctx, n, max_ops):
    from vf.props import c01
    c01.shard_programs(ctx, 'mdib_two_mds_limit.xml', n, max_ops, prop=P, index_bias=True)


# ---- consumer side: description modification reports whose parts carry several sibling descriptors
MSG = 'http://standards.ieee.org/downloads/11073/11073-10207-2017/message'


def regroup_report(xml: bytes):
    """Merge neighbouring report parts with equal ModificationType, ParentDescriptor and SourceMds into one part.

    The provider of this library writes one descriptor per part; BICEPS allows siblings to share a part, and other
    providers do that.  Returns (bytes, number of merges).
    """
    from lxml import etree
    root = etree.fromstring(xml)
    report = root.find(f'.//{{{MSG}}}DescriptionModificationReport')
    if report is None:
        return xml, 0
    merges = 0
    prev = None
    for part in list(report.findall(f'{{{MSG}}}ReportPart')):
        src = part.find(f'{{{MSG}}}SourceMds')
        key = (part.get('ModificationType', 'Upt'), part.get('ParentDescriptor'), src.text if src is not None else None)
        if prev is not None and prev[0] == key:
            target = prev[1]
            first_state = target.find(f'{{{MSG}}}State')
            for d in part.findall(f'{{{MSG}}}Descriptor'):
                if first_state is not None:
                    first_state.addprevious(d)
                else:
                    target.append(d)
            for st_ in part.findall(f'{{{MSG}}}State'):
                target.append(st_)
            report.remove(part)
            merges += 1
        else:
            prev = (key, part)
    return etree.tostring(root), merges


def st_regroup_program(inv):
    from vf.props import c01
    biased = c01.st_index_biased_ops(inv)
    multi = st.lists(biased, min_size=2, max_size=4, unique_by=lambda op: op[1]).map(
        lambda ops: ['multi', [[o[0], o[1], o[2], 'classic'] for o in ops]])
    other = MP.st_op(inv, descriptor_ops=True, context_ops=False, multi=True, kw_hold=False, aborts=False)
    return st.lists(st.one_of(multi, multi, other), min_size=1, max_size=8)


def regroup_case(ctx, prog):
    from vf import loopback as L
    from vf.props import c01
    r = c01.PairRunner('mdib_two_mds_limit.xml', prop=P, check_notifications=False)
    stats = {'merges': 0}

    def interceptor(entry):
        if entry.action is not None and entry.action.endswith('/DescriptionModificationReport'):
            new, n = regroup_report(entry.request)
            if n:
                stats['merges'] += n
                return ('rewrite', new)
        return None
    findings = []
    try:
        L.NET.interceptor = interceptor
        for op in prog:
            f, _info = r.step(op)
            findings += [(s.replace(f'{P}/', f'{P}/regrouped-report/'), d) for s, d in f]
            if findings:
                break
    finally:
        L.NET.interceptor = None
        r.close()
    ctx.case(prog, stats['merges'] > 0, 'regroup', classes=('merged-parts',) if stats['merges'] else ())
    return findings


def shard_regroup(ctx, n):
    inv = MP.inventory('mdib_two_mds_limit.xml')
    R.hyp_campaign(ctx, 'regroup', st_regroup_program(inv), lambda prog: regroup_case(ctx, prog), n,
                   shrink_s=30 if ctx.tier == 'quick' else 200)


def run(ctx):
    quick = ctx.tier == 'quick'
    R.run_shards(ctx, __name__, 'shard_table', [(600 if quick else 20000,)] * (R.NPROC // 2))
    R.run_shards(ctx, __name__, 'shard_mdib', [(6 if quick else 150, 14 if quick else 30)] * (R.NPROC // 2))
    R.run_shards(ctx, __name__, 'shard_regroup', [(5 if quick else 150,)] * (R.NPROC // 2))


def replay(part, case):
    if part == 'table':
        return run_ops([list(o) for o in case])[0]
    if part == 'regroup':
        return regroup_case(R.Ctx(P, 'quick', 0, {}), case)
    from vf.props import c01
    return c01.replay_for(P, case)
