"""C05 - BICEPS / WS-* data types round-trip losslessly through schema-valid XML.

For every concrete class found by reflection: spec -> instance x -> XML bytes -> parse -> y.
Oracle: canon(y) == canon(x); y -> XML is identical to the first XML; the XML validates against the bundled XSDs
in a context whose schema type is known (own wrapper schema: element `probe` of xsd:anyType + xsi:type, or the
global element for message types).
"""
from __future__ import annotations

import re
from functools import lru_cache

from lxml import etree

from vf import canon as C
from vf import run as R
from vf.gen import types as T

P = 'C05'
META = {
    'level': 'exploration',
    'rule': ('part metadata: mex Metadata values with 0-4 sections of different dialects (generated ThisModel / ThisDevice / '
             'Relationship with Host and Hosted / wsdl Location contents), schema-validated as wsx:Metadata, read back with '
             'the hand-written reader; part tree: generated containment trees (Mds > Vmd/Sco/AlertSystem/SystemContext/Clock/Battery > ...) '
             'reconstructed by the MDIB, schema-validated as GetMdibResponse and read back; part roundtrip: '
             'every concrete XMLTypeBase/ContainerBase class of pm_types, msg_types, eventing/wsd/addressing/dpws/mex '
             'types and the descriptor/state containers; instances from reflection-driven hypothesis strategies '
             '(optional members present/absent by draw, lists 0-3, every enum member, xsi:type substitutions, XML-legal '
             'strings); non-trivial = at least one optional member present and one absent, or a non-empty list, or an '
             'xsi:type substitution; distinct by (class, value spec)'),
    'assumptions': ['\\t \\n \\r are not generated inside strings (XML processors normalise them)',
                    'classes the library itself cannot instantiate are skipped and listed',
                    'classes without a named schema type are schema-checked only inside the classes that embed them'],
}

PROBE_NS = 'urn:verif:probe'
PROBE_TAG = etree.QName(PROBE_NS, 'probe')


@lru_cache(maxsize=None)
def probe_schema():
    """All bundled schemas + one global element of xsd:anyType (so any named type can be checked via xsi:type)."""
    from sdc11073.namespaces import PrefixesEnum
    from sdc11073.schema_resolver import SchemaResolver
    namespaces = [e.value for e in PrefixesEnum]
    parser = etree.XMLParser(resolve_entities=True)
    parser.resolvers.add(SchemaResolver(namespaces))
    parts = ['<?xml version="1.0" encoding="UTF-8"?>',
             f'<xsd:schema xmlns:xsd="http://www.w3.org/2001/XMLSchema" targetNamespace="{PROBE_NS}" '
             'elementFormDefault="qualified">']
    for e in namespaces:
        if e.schema_location_url is not None and e.prefix != 'xsd':
            parts.append(f'<xsd:import namespace="{e.namespace}" schemaLocation="{e.schema_location_url}"/>')
    parts.append('<xsd:element name="probe" type="xsd:anyType"/>')
    parts.append('</xsd:schema>')
    tree = etree.fromstring('\n'.join(parts).encode(), parser=parser)
    return etree.XMLSchema(etree=tree)


@lru_cache(maxsize=None)
def named_complex_types() -> frozenset:
    from sdc11073.namespaces import schema_folder
    out = set()
    for path in sorted(schema_folder.glob('*.xsd')):
        tree = etree.parse(str(path))
        tns = tree.getroot().get('targetNamespace')
        for ct in tree.getroot().findall('{http://www.w3.org/2001/XMLSchema}complexType'):
            out.add((tns, ct.get('name')))
    return frozenset(out)


@lru_cache(maxsize=None)
def global_elements() -> frozenset:
    from sdc11073.namespaces import schema_folder
    out = set()
    for path in sorted(schema_folder.glob('*.xsd')):
        tree = etree.parse(str(path))
        tns = tree.getroot().get('targetNamespace')
        for el in tree.getroot().findall('{http://www.w3.org/2001/XMLSchema}element'):
            out.add((tns, el.get('name')))
    return frozenset(out)


def _nsmap():
    from sdc11073.namespaces import default_ns_helper
    m = dict(default_ns_helper.ns_map)
    m['probe'] = PROBE_NS
    return m


def to_xml(obj):
    """(root element, context) for an instance; context in {'xsi-type', 'global-element', 'untyped'}."""
    from sdc11073.mdib.containerbase import ContainerBase
    from sdc11073.namespaces import QN_TYPE, default_ns_helper
    from sdc11073.xml_types.basetypes import MessageType
    nt = getattr(obj, 'NODETYPE', None)
    if isinstance(obj, ContainerBase):
        root = etree.Element(PROBE_TAG, nsmap=_nsmap())
        obj.update_node(root, default_ns_helper, set_xsi_type=True)
        return root, 'xsi-type'
    if isinstance(obj, MessageType) and isinstance(nt, etree.QName):
        node = obj.as_etree_node(nt, _nsmap())
        if node is None:
            return None, 'empty-body'
        ctx = 'global-element' if (nt.namespace, nt.localname) in global_elements() else 'untyped'
        return node, ctx
    node = obj.as_etree_node(PROBE_TAG, _nsmap())
    if isinstance(nt, etree.QName) and (nt.namespace, nt.localname) in named_complex_types():
        node.set(QN_TYPE, default_ns_helper.doc_name_from_qname(nt))
        return node, 'xsi-type'
    return node, 'untyped'


def from_xml(cls, node):
    from sdc11073.mdib.containerbase import ContainerBase
    if issubclass(cls, ContainerBase):
        return cls.from_node(node)
    return cls.value_class_from_node(node).from_node(node) if hasattr(cls, 'value_class_from_node') else cls.from_node(node)


def _strip_clock(root):
    """ClockState.DateAndTime is written as 'now' on every serialisation (excluded by the property)."""
    for e in root.iter():
        if 'DateAndTime' in e.attrib:
            del e.attrib['DateAndTime']
    return root


def _first_member(diffs):
    if not diffs:
        return '?'
    m = re.match(r'\.?([A-Za-z_]+)', diffs[0][0])
    return m.group(1) if m else '?'


def _schema_bucket(msg: str) -> str:
    m = re.search(r"Element '\{[^}]*\}([A-Za-z]+)'(?:, attribute '([A-Za-z:{}./0-9-]+)')?", msg)
    what = 'other'
    if 'is not a valid value of the atomic type' in msg or 'is not a valid value of the' in msg:
        what = 'invalid-value'
    elif 'This element is not expected' in msg:
        what = 'unexpected-element'
    elif 'Missing child element' in msg:
        what = 'missing-child'
    elif 'is required but missing' in msg:
        what = 'missing-attribute'
    elif 'is not allowed' in msg:
        what = 'attribute-not-allowed'
    elif 'facet' in msg:
        what = 'facet'
    if m:
        attr = m.group(2)
        return f'{what}/{m.group(1)}' + (f'@{attr.split("}")[-1]}' if attr else '')
    return what


def _foreign_descriptor(state_cls):
    """A descriptor of the right kind with a DescriptorVersion that the parsed document does not carry."""
    from sdc11073.mdib import descriptorcontainers as dc
    name = state_cls.__name__.replace('StateContainer', 'DescriptorContainer')
    dcls = getattr(dc, name, None)
    if dcls is None:
        return None
    try:
        d = dcls('vf_foreign_descriptor', None)
    except Exception:  # noqa: BLE001
        return None
    d.DescriptorVersion = 7
    return d


def check_spec(spec):
    """All findings for one instance spec: list of (signature, detail)."""
    out = []
    cname = spec['cls'].split('.')[-1]
    cls = T.all_classes()[spec['cls']]
    x = T.build(spec)
    try:
        node1, ctx = to_xml(x)
    except Exception as ex:  # noqa: BLE001
        if not R.exc_in_library(ex):
            raise
        return [(f'{P}/write-raises/{cname}/{R.exc_sig(ex)}', f'{type(ex).__name__}: {str(ex)[:600]}')], 'none'
    if node1 is None:
        return [], ctx
    xml1 = etree.tostring(node1)
    # --- schema validity (independent validator, own wrapper schema)
    if ctx in ('xsi-type', 'global-element'):
        schema = probe_schema()
        doc = etree.fromstring(xml1)
        if not schema.validate(doc):
            errs = [e.message for e in schema.error_log][:3]
            out.append((f'{P}/schema-invalid/{cname}/{_schema_bucket(errs[0] if errs else "")}',
                        {'errors': errs, 'xml': xml1.decode()[:1500]}))
    # --- read back
    parsed = etree.fromstring(xml1)
    src_before = etree.tostring(parsed)
    try:
        y = from_xml(cls, parsed)
    except Exception as ex:  # noqa: BLE001
        if not R.exc_in_library(ex):
            raise
        out.append((f'{P}/read-raises/{cname}/{R.exc_sig(ex)}', {'error': f'{type(ex).__name__}: {str(ex)[:500]}',
                                                                 'xml': xml1.decode()[:1500]}))
        return out, ctx
    for which, obj in (('built', x), ('parsed', y)):
        problems = C.read_law(obj)
        if problems:
            member = problems[0].split(':')[0].rsplit('.', 1)[-1].split('[')[0]
            out.append((f'{P}/stored-value-not-read/{which}/{member}', {'problems': problems[:3], 'xml': xml1.decode()[:800]}))
    cx, cy = C.canon(x), C.canon(y)
    if cx != cy:
        d = C.diff(cx, cy)
        out.append((f'{P}/value-changed/{cname}.{_first_member(d)}', {'diff': [list(map(str, i)) for i in d],
                                                                      'xml': xml1.decode()[:1500]}))
    # --- what is absent in the document comes from the documented defaults, not from whatever the constructor was given
    try:
        again = from_xml(cls, etree.fromstring(xml1))
        if C.canon(again) != cy:
            d = C.diff(cy, C.canon(again))
            out.append((f'{P}/read-not-deterministic/{cname}.{_first_member(d)}',
                        {'diff': [list(map(str, i)) for i in d[:3]], 'xml': xml1.decode()[:800]}))
        if getattr(cls, 'is_state_container', False):
            other = _foreign_descriptor(cls)
            if other is not None:
                with_descr = cls.from_node(etree.fromstring(xml1), other)
                cd = C.canon(with_descr)
                if cd != cy:
                    d = C.diff(cy, cd)
                    out.append((f'{P}/absent-member-taken-from-descriptor/{cname}.{_first_member(d)}',
                                {'diff': [list(map(str, i)) for i in d[:3]], 'xml': xml1.decode()[:800]}))
    except Exception as ex:  # noqa: BLE001
        if not R.exc_in_library(ex):
            raise
        out.append((f'{P}/read-again-raises/{cname}/{R.exc_sig(ex)}', f'{type(ex).__name__}: {str(ex)[:300]}'))
    # --- write again
    try:
        node2, _ = to_xml(y)
        xml2 = etree.tostring(node2)
    except Exception as ex:  # noqa: BLE001
        if not R.exc_in_library(ex):
            raise
        out.append((f'{P}/rewrite-raises/{cname}/{R.exc_sig(ex)}', f'{type(ex).__name__}: {str(ex)[:500]}'))
        return out, ctx
    # --- writing must not alter what was written before nor the document the value was read from
    if etree.tostring(node1) != xml1:
        out.append((f'{P}/write-changes-earlier-output/{cname}', {'first_write_now': etree.tostring(node1).decode()[:800],
                                                                   'first_write_then': xml1.decode()[:800]}))
    if etree.tostring(parsed) != src_before:
        out.append((f'{P}/write-changes-source-document/{cname}', {'source_now': etree.tostring(parsed).decode()[-600:],
                                                                    'source_then': src_before.decode()[-600:]}))
    if xml1 != xml2 and cx == cy:
        c1, c2 = C.canon_elem(_strip_clock(etree.fromstring(xml1))), C.canon_elem(_strip_clock(etree.fromstring(xml2)))
        if c1 != c2:
            out.append((f'{P}/rewrite-differs/{cname}', {'xml1': xml1.decode()[:1200], 'xml2': xml2.decode()[:1200]}))
    return out, ctx


def case_fn(ctx, spec):
    found, sctx = check_spec(spec)
    stats = T.spec_stats(spec)
    nontrivial = (stats['present'] > 0 and stats['absent'] > 0) or stats['lists'] > 0 or stats['subst'] > 0
    ctx.case(spec, nontrivial, 'roundtrip', classes=(f'schema:{sctx}',) + (('subst',) if stats['subst'] else ()) + (
        ('list',) if stats['lists'] else ()) + (('nested',) if stats['nested'] else ()))
    return found


def shard_classes(ctx, names, per_class):
    for name in names:
        if ctx.out_of_budget():
            break
        cls = T.all_classes()[name]
        R.hyp_campaign(ctx, f'rt:{name.split(".")[-1]}', T.instance_spec(cls), lambda s: case_fn(ctx, s), per_class,
                       shrink_s=15 if ctx.tier == 'quick' else 60, max_rounds=6)
        ctx.count('classes_explored')


# Classes left out of the generated campaign, with the reason (each is still exercised by a fixed probe below).
EXCLUDED = {
    'sdc11073.xml_types.msg_types.Channel': 'unwritable',
    'sdc11073.xml_types.msg_types.Vmd': 'unwritable',
    'sdc11073.xml_types.msg_types.Mds': 'unwritable',
    'sdc11073.xml_types.msg_types.MdDescription': 'only the empty value is writable (contains Mds)',
    'sdc11073.xml_types.msg_types.GetMdDescriptionResponse': 'only the empty value is writable (contains Mds)',
    'sdc11073.xml_types.msg_types.GetMdibResponse': 'body is a complete msg:Mdib tree (covered by C01/C07 through the real services)',
    'sdc11073.xml_types.mex_types.Metadata': 'hand-written from_node keyed by dialect: has a part of its own (metadata)',
    'sdc11073.xml_types.pm_types.PropertyBasedPMType': 'base class without members',
}

KNOWN_PROBES = [
    # (part, spec): fixed cases for recorded defects, so that they are reported on every run
    {'cls': 'sdc11073.xml_types.msg_types.Mds',
     'set': {'container': {'cls': 'sdc11073.mdib.descriptorcontainers.MdsDescriptorContainer', 'set': {'Handle': 'mds0'}}}},
]


# ------------------------------------------------------------------------------------- whole containment trees

def _child_slots(cls):
    """[(child element QName, [descriptor classes], max_occurs)] for a descriptor class, in declaration order."""
    from sdc11073.mdib import descriptorcontainers as dcm
    from vf.gen.xsdmodel import model
    tinfo = model().type_info(cls.NODETYPE.text)
    slots = []
    import inspect
    for klass in reversed(inspect.getmro(cls)):
        for mapping in klass.__dict__.get('_child_descriptor_name_mappings', ()):
            classes = [dcm.get_container_class(nt) for nt in (mapping.node_types or ())]
            classes = [c for c in classes if c is not None]
            cinfo = tinfo.children.get(mapping.child_qname.text) if tinfo is not None else None
            slots.append((mapping.child_qname, classes, cinfo.max_occurs if cinfo is not None else 1))
    return slots


def st_tree():
    from hypothesis import strategies as st
    from sdc11073.mdib import descriptorcontainers as dcm

    @st.composite
    def tree(draw):
        nodes = []  # [handle, parent, spec]
        counter = [0]

        def add(cls, parent, depth):
            handle = f'd{counter[0]}'
            counter[0] += 1
            spec = draw(T.instance_spec(cls))
            spec['set'].pop('Handle', None)
            nodes.append([handle, parent, spec])
            if depth >= 5 or len(nodes) > 40:
                return
            for _qn, classes, max_occurs in _child_slots(cls):
                if not classes:
                    continue
                top = 2 if max_occurs is None else min(max_occurs, 2)
                n = draw(st.integers(0, top))
                for _ in range(n):
                    add(draw(st.sampled_from(classes)), handle, depth + 1)
        for _ in range(draw(st.integers(1, 2))):
            add(dcm.MdsDescriptorContainer, None, 0)
        return nodes
    return tree()


def tree_case(ctx, nodes):
    import logging

    import sdc11073.definitions_sdc as defs
    from sdc11073.mdib import ProviderMdib
    from sdc11073.pysoap.msgreader import MessageReader
    mdib = ProviderMdib()
    descriptors, states, originals = [], [], {}
    for handle, parent, spec in nodes:
        d = T.build(spec)
        d.Handle = handle
        d.parent_handle = parent
        descriptors.append(d)
        originals[handle] = (parent, C.canon(d))
        if not d.is_context_descriptor:
            states.append(mdib.data_model.mk_state_container(d))
    kinds = {type(d).__name__ for d in descriptors}
    ctx.case(nodes, len(descriptors) >= 4, 'tree', classes=tuple(sorted(kinds))[:8])
    out = []
    mdib.add_description_containers(descriptors)
    mdib.add_state_containers(states)
    try:
        node, _ = mdib.reconstruct_mdib_with_context_states()
    except Exception as ex:  # noqa: BLE001
        if not R.exc_in_library(ex):
            raise
        return [(f'{P}/tree/reconstruct-raises/{R.exc_sig(ex)}', f'{type(ex).__name__}: {str(ex)[:400]}')]
    from sdc11073.namespaces import default_ns_helper as nsh
    wrapper = etree.Element(nsh.MSG.tag('GetMdibResponse'), nsmap=dict(nsh.ns_map))
    wrapper.set('MdibVersion', '0')
    wrapper.set('SequenceId', 'urn:uuid:1')
    wrapper.append(node)
    xml = etree.tostring(wrapper)
    doc = etree.fromstring(xml)
    schema = probe_schema()
    if not schema.validate(doc):
        errs = [e.message for e in schema.error_log][:2]
        out.append((f'{P}/tree/schema-invalid/{_schema_bucket(errs[0] if errs else "")}', {'errors': errs}))
        return out
    reader = MessageReader(defs.SdcV1Definitions, None, logging.getLogger('vf.c05'), validate=False)
    try:
        rd, _rs = reader.read_mdib_xml(xml)
    except Exception as ex:  # noqa: BLE001
        if not R.exc_in_library(ex):
            raise
        return [(f'{P}/tree/read-raises/{R.exc_sig(ex)}', f'{type(ex).__name__}: {str(ex)[:400]}')]
    got = {d.Handle: (d.parent_handle, C.canon(d)) for d in rd}
    if set(got) != set(originals):
        out.append((f'{P}/tree/descriptors-lost', f'written {sorted(originals)}, read {sorted(got)}'))
    else:
        for h, (parent, cd) in originals.items():
            if got[h][0] != parent:
                out.append((f'{P}/tree/parent-changed', f'{h}: parent {parent} -> {got[h][0]}'))
                break
            if got[h][1] != cd:
                d = C.diff(cd, got[h][1])
                out.append((f'{P}/tree/value-changed/{cd[1]}.{_first_member(d)}', [list(map(str, x)) for x in d[:2]]))
                break
    return out



# ------------------------------------------------------------------------- implied values as the schema documents them
@lru_cache(maxsize=None)
def documented_implied_values() -> dict:
    """{(namespace, complex type name): (base type key | None, {attribute name: literal})} read from the annotations of the
    bundled schemas ('... The implied value SHALL be "Real".')."""
    from sdc11073.namespaces import schema_folder
    xs = '{http://www.w3.org/2001/XMLSchema}'
    out = {}
    for path in sorted(schema_folder.glob('BICEPS_*.xsd')):
        tree = etree.parse(str(path))
        root = tree.getroot()
        tns = root.get('targetNamespace')
        nsmap = root.nsmap
        for ct in root.iter(f'{xs}complexType'):
            name = ct.get('name')
            if not name:
                # an anonymous type of a local element (e.g. pm:MetricQuality): keyed by the element name
                holder = ct.getparent()
                if holder is None or holder.tag != f'{xs}element' or not holder.get('name'):
                    continue
                name = 'element:' + holder.get('name')
            base = None
            ext = ct.find(f'{xs}complexContent/{xs}extension')
            if ext is None:
                ext = ct.find(f'{xs}simpleContent/{xs}extension')
            if ext is not None and ext.get('base') and ':' in ext.get('base'):
                prefix, local = ext.get('base').split(':')
                base = (nsmap.get(prefix), local)
            attrs = {}
            for at in ct.iter(f'{xs}attribute'):
                owner = at.getparent()
                while owner is not None and owner.tag != f'{xs}complexType':
                    owner = owner.getparent()
                if owner is not ct or not at.get('name'):
                    continue
                doc = ' '.join(''.join(d.itertext()) for d in at.iter(f'{xs}documentation'))
                m = re.search(r'implied value SHALL be "([^"]*)"', doc)
                if m:
                    attrs[at.get('name')] = m.group(1)
            out[(tns, name)] = (base, attrs)
    return out


def implied_for_class(cls) -> dict:
    """{attribute name: documented implied literal} for a class with a named schema type (own type and its bases)."""
    nt = getattr(cls, 'NODETYPE', None)
    table = documented_implied_values()
    key = (nt.namespace, nt.localname) if isinstance(nt, etree.QName) else None
    if key not in table:
        # data types without a named schema type carry the name of the element they are the anonymous type of
        names = {cls.__name__} | ({nt.localname} if isinstance(nt, etree.QName) else set())
        keys = [k for k in table if k[1].startswith('element:') and k[1][len('element:'):] in names]
        if len(keys) != 1:
            return {}
        key = keys[0]
    found = {}
    seen = set()
    while key in table and key not in seen:
        seen.add(key)
        base, attrs = table[key]
        for k, v in attrs.items():
            found.setdefault(k, v)
        key = base
    return found


def implied_part(ctx):
    """For every class with a named schema type and every attribute whose implied value the schema documents: an
    instance read from XML in which that attribute is absent has that value."""
    from sdc11073.xml_types import xml_structure as xs_
    n = 0
    for cname, cls in sorted(T.all_classes().items()):
        if cname in EXCLUDED:
            continue
        want = implied_for_class(cls)
        if not want:
            continue
        try:
            obj = T.new_instance(cls)
            props = obj.sorted_container_properties()
        except Exception:  # noqa: BLE001
            continue
        for member, prop in props:
            attr = getattr(prop, '_attribute_name', None)
            if attr not in want or not isinstance(prop, xs_._AttributeBase):  # noqa: SLF001
                continue
            literal = want[attr]
            case = {'cls': cname, 'member': member, 'literal': literal}
            n += 1
            ctx.case(case, True, 'implied')
            for sig, detail in implied_one(case):
                ctx.finding(sig, detail, case, 'implied')
    ctx.count('implied/attributes', n)


def implied_one(case):
    cls = T.all_classes()[case['cls']]
    member, literal = case['member'], case['literal']
    cname = case['cls'].split('.')[-1]
    obj = T.new_instance(cls)
    prop = dict(obj.sorted_container_properties())[member]
    try:
        node, _ctx = to_xml(obj)
        attr = prop._attribute_name  # noqa: SLF001
        if attr in node.attrib:
            del node.attrib[attr]
        back = from_xml(cls, etree.fromstring(etree.tostring(node)))
        got = getattr(back, member)
        expected = prop._converter.to_py(literal)  # noqa: SLF001
    except Exception as ex:  # noqa: BLE001
        if not R.exc_in_library(ex):
            raise
        return []  # (classes that cannot be written / read with default content are judged by the round-trip part)
    if got != expected and str(getattr(got, 'value', got)) != literal:
        return [(f'{P}/implied-value/{cname}.{member}',
                 f'{cname} read from XML without @{prop._attribute_name}: {member} = {got!r}, the schema documents the '  # noqa: SLF001
                 f'implied value "{literal}"')]
    return []


# ------------------------------------------------------------------------------------- mex Metadata (hand-written reader)
MEX = 'sdc11073.xml_types.mex_types.'
SECTION_CLASSES = ('ThisModelMetadataSection', 'ThisDeviceMetadataSection', 'RelationshipMetadataSection',
                   'LocationMetadataSection')
SECTION_MEMBER = {'ThisModelMetadataSection': ('this_model', 'MetadataReference'),
                  'ThisDeviceMetadataSection': ('this_device', 'MetadataReference'),
                  'RelationshipMetadataSection': ('relationship', 'MetadataReference'),
                  'LocationMetadataSection': ('wsdl_location', 'Location')}


def st_metadata():
    """A Metadata value as the provider builds it: sections of different dialects (each dialect at most once, any order),
    the Dialect attribute left at the value that identifies the section class.  ThisModel / ThisDevice / Relationship
    sections carry their embedded content (generated against the named DPWS schema types), the wsdl section a Location."""
    from hypothesis import strategies as st
    from sdc11073.xml_types import dpws_types
    from vf.gen import xmlvalues as XV
    dpws = '{http://docs.oasis-open.org/ws-dd/ns/dpws/2009/01}'
    uri = XV.any_uri()
    host = T.instance_spec(dpws_types.HostServiceType, 2, dpws + 'HostServiceType')
    hosted = T.instance_spec(dpws_types.HostedServiceType, 2, dpws + 'HostedServiceType')
    relationship = st.fixed_dictionaries({'Host': host, 'Hosted': st.lists(hosted, max_size=3)}).map(
        lambda d: {'cls': MEX + 'MetaDataRelationship', 'set': d})
    content = {'ThisModelMetadataSection': T.instance_spec(dpws_types.ThisModelType, 1, dpws + 'ThisModelType'),
               'ThisDeviceMetadataSection': T.instance_spec(dpws_types.ThisDeviceType, 1, dpws + 'ThisDeviceType'),
               'RelationshipMetadataSection': relationship}

    def section(name):
        # the library's section classes for embedded content require the content; a wsdl section is a Location
        main = content[name].map(lambda c: {'MetadataReference': c}) if name in content else uri.map(lambda u: {'Location': u})
        ident = st.one_of(st.just({}), uri.map(lambda u: {'Identifier': u}))
        return st.tuples(main, ident).map(lambda t: {'cls': MEX + name, 'set': {**t[0], **t[1]}})
    return st.lists(st.sampled_from(SECTION_CLASSES), unique=True, max_size=4).flatmap(
        lambda names: st.tuples(*[section(n) for n in names]).map(list))


def metadata_case(ctx, specs):
    from sdc11073.xml_types import mex_types
    out = []
    md = mex_types.Metadata()
    for spec in specs:
        md.MetadataSection.append(T.build(spec))
    names = [spec['cls'].split('.')[-1] for spec in specs]
    ctx.case(specs, len(specs) >= 2, 'metadata', classes=tuple(names))
    try:
        node1 = md.as_etree_node(mex_types.Metadata.NODETYPE, _nsmap())
    except Exception as ex:  # noqa: BLE001
        if not R.exc_in_library(ex):
            raise
        return [(f'{P}/metadata/write-raises/{R.exc_sig(ex)}', f'{type(ex).__name__}: {str(ex)[:400]}')]
    xml1 = etree.tostring(node1)
    doc = etree.fromstring(xml1)
    schema = probe_schema()
    if not schema.validate(doc):
        errs = [e.message for e in schema.error_log][:3]
        out.append((f'{P}/metadata/schema-invalid/{_schema_bucket(errs[0] if errs else "")}',
                    {'errors': errs, 'xml': xml1.decode()[:1500]}))
    body = etree.Element('{http://www.w3.org/2003/05/soap-envelope}Body')  # the reader is handed the body of the envelope
    body.append(etree.fromstring(xml1))
    try:
        back = mex_types.Metadata.from_node(body)
    except Exception as ex:  # noqa: BLE001
        if not R.exc_in_library(ex):
            raise
        return out + [(f'{P}/metadata/read-raises/{R.exc_sig(ex)}', {'error': f'{type(ex).__name__}: {str(ex)[:400]}',
                                                                    'xml': xml1.decode()[:1500]})]
    got = [type(sec).__name__ for sec in back.MetadataSection]
    if got != names:
        out.append((f'{P}/metadata/sections-changed', f'written {names}, read {got}'))
        return out
    for name, a, b in zip(names, md.MetadataSection, back.MetadataSection):
        ca, cb = C.canon(a), C.canon(b)
        if ca != cb:
            d = C.diff(ca, cb)
            out.append((f'{P}/metadata/value-changed/{name}.{_first_member(d)}',
                        {'diff': [list(map(str, i)) for i in d[:3]], 'xml': xml1.decode()[:1500]}))
        member, source = SECTION_MEMBER[name]
        want, have = getattr(b, source), getattr(back, member)
        same = (want == have) if isinstance(want, (str, type(None))) else (have is not None and C.canon(want) == C.canon(have))
        if not same:
            out.append((f'{P}/metadata/shortcut-member-differs/{member}',
                        f'Metadata.{member} is not the content of its {name} after reading {xml1.decode()[:600]}'))
    for member in {'this_model', 'this_device', 'relationship', 'wsdl_location'} - {SECTION_MEMBER[n][0] for n in names}:
        if getattr(back, member) is not None:
            out.append((f'{P}/metadata/absent-section-has-value/{member}',
                        f'Metadata.{member} = {getattr(back, member)!r} although the document has no such section'))
    try:
        xml2 = etree.tostring(back.as_etree_node(mex_types.Metadata.NODETYPE, _nsmap()))
    except Exception as ex:  # noqa: BLE001
        if not R.exc_in_library(ex):
            raise
        return out + [(f'{P}/metadata/rewrite-raises/{R.exc_sig(ex)}', f'{type(ex).__name__}: {str(ex)[:400]}')]
    if xml1 != xml2 and C.canon_elem(etree.fromstring(xml1)) != C.canon_elem(etree.fromstring(xml2)):
        out.append((f'{P}/metadata/rewrite-differs', {'xml1': xml1.decode()[:1200], 'xml2': xml2.decode()[:1200]}))
    return out


def shard_metadata(ctx, n):
    R.hyp_campaign(ctx, 'metadata', st_metadata(), lambda specs: metadata_case(ctx, specs), n,
                   shrink_s=20 if ctx.tier == 'quick' else 120)


def shard_tree(ctx, n):
    R.hyp_campaign(ctx, 'tree', st_tree(), lambda nodes: tree_case(ctx, nodes), n, shrink_s=20 if ctx.tier == 'quick' else 120)


def shard_all(ctx, names, per_class, n_tree, n_metadata):
    if ctx.shard == 1:
        implied_part(ctx)
    shard_metadata(ctx, n_metadata)
    shard_tree(ctx, n_tree)
    shard_classes(ctx, names, per_class)


def run(ctx):
    probe_schema()  # fail early (harness error) if the bundled schemas cannot be loaded
    for spec in KNOWN_PROBES:
        found, _ = check_spec(spec)
        ctx.case(spec, True, 'probe')
        for sig, detail in found:
            ctx.finding(sig, detail, spec, 'probe')
    names = sorted(n for n in T.concrete_classes() if n not in EXCLUDED)
    for n, why in sorted(EXCLUDED.items()):
        ctx.note(f'excluded from generation: {n.split(".")[-1]}: {why}')
    ctx.count('classes_excluded', len(EXCLUDED))
    skipped = T.uninstantiable_classes()
    for n in skipped:
        ctx.note(f'skipped (library cannot instantiate it): {n}')
    ctx.count('classes_total', len(names))
    per_class = 35 if ctx.tier == 'quick' else 500
    nshards = R.NPROC
    # interleave so that heavy classes spread over shards
    # the two small parts run first in every shard, so a loaded machine cuts the tail of the class list (which starts at a
    # position that depends on the seed) and never a whole part
    jobs = []
    for i in range(nshards):
        mine = names[i::nshards]
        k = ctx.seed % max(len(mine), 1)
        jobs.append((mine[k:] + mine[:k], per_class, 6 if ctx.tier == 'quick' else 400, 12 if ctx.tier == 'quick' else 600))
    R.run_shards(ctx, __name__, 'shard_all', jobs)


def replay(part, case):
    if part == 'tree':
        return tree_case(R.Ctx(P, 'quick', 0, {}), case)
    if part == 'metadata':
        return metadata_case(R.Ctx(P, 'quick', 0, {}), case)
    if part == 'implied':
        return implied_one(case)
    found, _ = check_spec(case)
    return found
