"""C20 - query services return exactly the selected states and texts."""
from __future__ import annotations

from hypothesis import strategies as st

from vf import canon as C
from vf import loopback as L
from vf import run as R
from vf import world as W
from vf.gen import mdibprog as MP
from vf.gen import xmlvalues as xv

P = 'C20'
META = {
    'level': 'exploration',
    'rule': ('part states: provider MDIBs reached by a short MDIB program on tests/mdib_two_mds.xml; handle lists drawn '
             'from descriptor handles, context-state handles, MDS handles, unknown strings, with duplicates and mixed '
             'kinds; GetMdState / GetContextStates through the consumer service clients over the loop-back transport vs. '
             'a reference selection on the provider tables; part texts: generated LocalizedText stores x every combination '
             'of filter parameters; non-trivial = handle list mixes >= 2 kinds or contains a duplicate; text query with '
             '>= 2 constraints; distinct by case'),
    'assumptions': ['GetMdState with context states enabled (library default DEFAULT_CONTEXTSTATES_IN_GETMDIB)'],
}

FIXTURE = 'mdib_two_mds.xml'
WIDTHS = ['xs', 's', 'm', 'l', 'xl', 'xxl']


def mds_of(mdib, handle):
    d = mdib.descriptions.handle.get_one(handle, allow_none=True)
    while d is not None and d.parent_handle is not None:
        d = mdib.descriptions.handle.get_one(d.parent_handle, allow_none=True)
    return d.Handle if d is not None else None


def st_states_case():
    inv = MP.inventory(FIXTURE)
    descr = [h for h, _c, _p in inv.descriptors]
    ctx_descr = [h for h, _c in inv.context_descriptors]
    ctx_states = inv.context_states + [f'vf_ctx_{i}' for i in range(4)]
    parents = {h: p for h, _c, p in inv.descriptors}
    ancestors = set()  # non-MDS ancestors of context descriptors (SystemContext): select nothing by themselves
    for h in ctx_descr:
        p = parents.get(h)
        while p is not None and parents.get(p) is not None:
            ancestors.add(p)
            p = parents.get(p)
    handle = st.one_of(st.sampled_from(descr), st.sampled_from(ctx_descr), st.sampled_from(ctx_states),
                       st.sampled_from(inv.mds), st.sampled_from(['vf_unknown', 'mds', 'x_y']),
                       st.sampled_from(sorted(ancestors) or descr))
    handles = st.one_of(st.just([]), st.none(), st.lists(handle, min_size=1, max_size=5),
                        st.lists(handle, min_size=1, max_size=3).map(lambda l: l + l[:1]))
    prog = st.lists(MP.st_op(inv, kinds=('metric',), descriptor_ops=True, context_ops=True, multi=False), max_size=6)
    return st.tuples(prog, st.lists(st.tuples(st.sampled_from(['mdstate', 'context']), handles), min_size=1, max_size=4))


def _kind(inv_sets, h):
    for name, s in inv_sets.items():
        if h in s:
            return name
    return 'unknown'


def states_case(ctx, case):
    from vf.props import c01
    prog, queries = case
    c01.park_role_workers()
    L.reset_network()
    inv = MP.inventory(FIXTURE)
    world = W.World(W.fixture(FIXTURE))
    out = []
    nontrivial = False
    try:
        consumer, _ = world.add_consumer(init_mdib=False)
        interp = MP.Interp(world.mdib, inv, provider=world.provider)
        for op in prog:
            try:
                interp.run(op)
            except Exception as ex:  # noqa: BLE001
                if not R.exc_in_library(ex):
                    raise
        mdib = world.mdib
        single = {s.DescriptorHandle: s for s in mdib.states.objects}
        ctxs = {s.Handle: s for s in mdib.context_states.objects}
        descr_handles = {d.Handle for d in mdib.descriptions.objects}
        mds_handles = {d.Handle for d in mdib.descriptions.objects if d.parent_handle is None}
        sets = {'ctx-state': set(ctxs), 'mds': mds_handles, 'descriptor': descr_handles}
        for which, handles in queries:
            hl = handles or []
            kinds = {_kind(sets, h) for h in hl}
            if len(kinds) >= 2 or len(hl) != len(set(hl)):
                nontrivial = True
            want = {}
            if which == 'mdstate':
                if not hl:
                    want.update({('s', h): s for h, s in single.items()})
                    want.update({('c', h): s for h, s in ctxs.items()})
                for h in hl:
                    if h in ctxs:
                        want[('c', h)] = ctxs[h]
                    elif h in descr_handles:
                        if h in single:
                            want[('s', h)] = single[h]
                        for sh, s in ctxs.items():
                            if s.DescriptorHandle == h:
                                want[('c', sh)] = s
                try:
                    res = consumer.client('Get').get_md_state(handles)
                    got_list = list(res.result.MdState.State)
                except Exception as ex:  # noqa: BLE001
                    if not R.exc_in_library(ex):
                        raise
                    out.append((f'{P}/GetMdState-raises/{R.exc_sig(ex)}', f'handles={handles}: {type(ex).__name__}: {ex}'[:300]))
                    break
            else:
                if not hl:
                    want.update({('c', h): s for h, s in ctxs.items()})
                for h in hl:
                    if h in ctxs:
                        want[('c', h)] = ctxs[h]
                    elif h in mds_handles:
                        for sh, s in ctxs.items():
                            if mds_of(mdib, s.DescriptorHandle) == h:
                                want[('c', sh)] = s
                    elif h in descr_handles:
                        for sh, s in ctxs.items():
                            if s.DescriptorHandle == h:
                                want[('c', sh)] = s
                try:
                    res = consumer.client('Context').get_context_states(handles)
                    got_list = list(res.result.ContextState)
                except Exception as ex:  # noqa: BLE001
                    if not R.exc_in_library(ex):
                        raise
                    out.append((f'{P}/GetContextStates-raises/{R.exc_sig(ex)}', f'handles={handles}: {type(ex).__name__}: {ex}'[:300]))
                    break
            got_keys = [('c', s.Handle) if s.is_context_state else ('s', s.DescriptorHandle) for s in got_list]
            name = 'GetMdState' if which == 'mdstate' else 'GetContextStates'
            dups = {k for k in got_keys if got_keys.count(k) > 1}
            if dups:
                out.append((f'{P}/{name}/state-returned-twice', f'handles={handles}: {sorted(dups)[:3]} returned more than once'))
            missing = set(want) - set(got_keys)
            extra = set(got_keys) - set(want)
            if missing:
                out.append((f'{P}/{name}/missing/{_kind(sets, sorted(hl)[0]) if hl else "all"}',
                            f'handles={handles}: {sorted(missing)[:4]} not returned'))
            if extra:
                why = 'mds-handle' if any(h in mds_handles for h in hl) else ('empty-list' if not hl else 'other')
                out.append((f'{P}/{name}/extra/{why}', f'handles={handles}: {sorted(extra)[:4]} returned but not selected'))
            if not missing and not extra:
                for s, k in zip(got_list, got_keys):
                    if C.canon(s) != C.canon(want[k]):
                        d = C.diff(C.canon(want[k]), C.canon(s))
                        out.append((f'{P}/{name}/content-differs', f'{k}: {[list(map(str, x)) for x in d[:2]]}'))
                        break
            if out:
                break
    finally:
        world.close()
    ctx.case(case, nontrivial, 'states', classes=tuple({q[0] for q in queries}))
    return out


# ------------------------------------------------------------------------------------------------------ texts

def st_texts_case():
    text = st.fixed_dictionaries({
        'ref': st.sampled_from(['r1', 'r2', 'r3']), 'lang': st.sampled_from(['en', 'de', 'en-US', None]),
        'version': st.one_of(st.none(), st.integers(0, 3)), 'width': st.one_of(st.none(), st.sampled_from(WIDTHS)),
        'lines': st.integers(1, 3), 'salt': st.integers(0, 99)})
    query = st.fixed_dictionaries({
        'refs': st.one_of(st.none(), st.lists(st.sampled_from(['r1', 'r2', 'r3', 'r9']), min_size=1, max_size=3, unique=True)),
        'version': st.one_of(st.none(), st.integers(0, 4)),
        'langs': st.one_of(st.none(), st.lists(st.sampled_from(['en', 'de', 'en-US', 'fr']), min_size=1, max_size=2, unique=True)),
        'widths': st.one_of(st.none(), st.lists(st.sampled_from(WIDTHS), min_size=1, max_size=2, unique=True)),
        'lines': st.one_of(st.none(), st.lists(st.integers(0, 3), min_size=1, max_size=2, unique=True))})
    # (texts, queries, texts added to the same store afterwards, queries after that)
    return st.tuples(st.lists(text, max_size=8), st.lists(query, min_size=1, max_size=3),
                     st.lists(text, max_size=4), st.lists(query, max_size=3))


def _mk_text(t):
    from sdc11073.xml_types import pm_types
    body = '\n'.join(f'line{i} {t["salt"]}' for i in range(t['lines']))
    return pm_types.LocalizedText(body, lang=t['lang'], ref=t['ref'], version=t['version'],
                                  text_width=None if t['width'] is None else pm_types.LocalizedTextWidth(t['width']))


def _key(t):
    return (t.Ref, t.Lang, t.Version, None if t.TextWidth is None else str(t.TextWidth.value if hasattr(t.TextWidth, 'value') else t.TextWidth), t.text)


_WORLD = {}


def texts_case(ctx, case):
    from vf.props import c01
    texts, queries, more_texts, more_queries = case if len(case) == 4 else (*case, [], [])
    c01.park_role_workers()
    if 'w' not in _WORLD:  # one provider/consumer pair per process; the store is replaced per case
        L.reset_network()
        w = W.World(W.fixture(FIXTURE))
        consumer, _ = w.add_consumer(init_mdib=False)
        _WORLD['w'] = (w, consumer)
    world, consumer = _WORLD['w']
    from sdc11073.provider.porttypes.localizationservice import LocalizationStorage
    store_texts = [_mk_text(t) for t in texts]
    storage = LocalizationStorage(store_texts)
    world.provider.hosted_services.localization_service.localization_storage = storage
    client = consumer.client('LocalizationService')
    out = []
    nontrivial = False
    rounds = [(None, queries)]
    if more_queries:
        rounds.append(([_mk_text(t) for t in more_texts], more_queries))
    for added, qs in rounds:
        if added is not None:
            storage.add(*added)  # the store grows after it has answered queries
            store_texts = store_texts + added
        store_keys = [_key(t) for t in store_texts]
        _run_text_queries(client, qs, store_texts, store_keys, out)
        nontrivial |= any(sum(v is not None for v in q.values()) >= 2 for q in qs) or (bool(added) and not out)
        if out:
            break
    if not out:
        try:
            langs = sorted(consumer.client('LocalizationService').get_supported_languages().result.Lang)
        except Exception as ex:  # noqa: BLE001
            if not R.exc_in_library(ex):
                raise
            langs = None
            out.append((f'{P}/GetSupportedLanguages-raises/{R.exc_sig(ex)}', f'{type(ex).__name__}: {ex}'[:300]))
        want = sorted({str(t.Lang) for t in store_texts})
        if langs is not None and langs != want:
            out.append((f'{P}/supported-languages', f'returned {langs}, stored languages {want}'))
    ctx.case(case, nontrivial, 'texts', classes=('store-grows-between-queries',) if len(rounds) > 1 and more_texts else ())
    return out


def _run_text_queries(client, queries, store_texts, store_keys, out):  # noqa: C901, PLR0912
    for q in queries:
        n_constraints = sum(v is not None for v in q.values())
        widths = None if q['widths'] is None else [__import__('sdc11073').xml_types.pm_types.LocalizedTextWidth(w) for w in q['widths']]
        try:
            res = client.get_localized_texts(refs=q['refs'], version=q['version'], langs=q['langs'], text_widths=widths,
                                             number_of_lines=q['lines'])
            got = list(res.result.Text)
        except Exception as ex:  # noqa: BLE001
            if not R.exc_in_library(ex):
                raise
            out.append((f'{P}/GetLocalizedText-raises/{R.exc_sig(ex)}', f'query={q}: {type(ex).__name__}: {ex}'[:300]))
            break
        versions = [t.Version for t in store_texts if t.Version is not None]
        for t in got:
            k = _key(t)
            if k not in store_keys:
                out.append((f'{P}/text/not-in-store', f'query={q}: returned {k} which is not stored'))
                break
            if q['refs'] is not None and t.Ref not in q['refs']:
                out.append((f'{P}/text/violates-ref', f'query={q}: returned {k}'))
            if q['version'] is not None and t.Version != q['version']:
                out.append((f'{P}/text/violates-version', f'query={q}: returned {k}'))
            if q['langs'] is not None and t.Lang not in q['langs']:
                out.append((f'{P}/text/violates-lang', f'query={q}: returned {k}'))
            if q['widths'] is not None and (k[3] is None or not any(WIDTHS.index(k[3]) <= WIDTHS.index(w) for w in q['widths'])):
                out.append((f'{P}/text/violates-width', f'query={q}: returned {k}'))
            if q['lines'] is not None and not any(t.text.count('\n') + 1 <= n for n in q['lines']):
                out.append((f'{P}/text/violates-lines', f'query={q}: returned {k}'))
            if out:
                break
        if not out and n_constraints == 0:
            latest = max(versions) if versions else None
            want = sorted(repr(k) for k in store_keys if k[2] == latest)
            if sorted(repr(_key(t)) for t in got) != want:
                out.append((f'{P}/text/unconstrained-not-latest-version',
                            f'no constraints: returned {len(got)} texts, the store has {len(want)} texts of the latest version '
                            f'{latest}'))
        if out:
            break


def shard(ctx, which, n):
    W.quiet_logging()
    if which == 'states':
        R.hyp_campaign(ctx, which, st_states_case(), lambda c: states_case(ctx, c), n)
    else:
        try:
            R.hyp_campaign(ctx, which, st_texts_case(), lambda c: texts_case(ctx, c), n)
        finally:
            if 'w' in _WORLD:
                _WORLD.pop('w')[0].close()


def run(ctx):
    q = ctx.tier == 'quick'
    R.run_shards(ctx, __name__, 'shard', [('states', 12 if q else 500)] * 10 + [('texts', 120 if q else 6000)] * 6)


def replay(part, case):
    ctx = R.Ctx(P, 'quick', 0, {})
    W.quiet_logging()
    if part == 'states':
        prog, queries = case
        return states_case(ctx, (prog, [tuple(q) for q in queries]))
    try:
        return texts_case(ctx, (case[0], case[1]))
    finally:
        if 'w' in _WORLD:
            _WORLD.pop('w')[0].close()
