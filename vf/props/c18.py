"""C18 - scalar XML value conversions are exact over the wire value space.

Parts
  ts_window     exhaustive: every ms in dense windows, xml -> py -> xml unchanged           (enumeration)
  ts_sampled    log-uniform ms up to 2**53/1000, plus float-grid boundaries                  (sampled)
  ts_py         float / int / Decimal seconds, py -> xml -> py changes < 1 ms               (hypothesis)
  dec_small     exhaustive: 1-4 digit coefficients x exponents -18..18 x sign, both ways     (enumeration)
  dec_sampled   1-18 digit coefficients x exponents, both directions, no exponent notation   (hypothesis)
  dec_lexical   xsd:decimal lexical forms (+, leading/trailing zeros, '.5', '5.')           (hypothesis)
  duration      py -> xml -> py and xml -> py -> xml against an exact Fraction reference     (hypothesis)
  datetime      four lexical kinds x time zones, both directions                             (hypothesis)
  simple        booleans, integers, every enum literal of the xml_types modules              (enumeration)
  outside       lexical forms outside the type must raise                                   (enumeration + hypothesis)
"""
from __future__ import annotations

import datetime
import enum
import importlib
import math
import random
import re
from decimal import Decimal
from fractions import Fraction

from hypothesis import strategies as st

from vf import run as R

P = 'C18'
META = {
    'level': 'exploration',
    'rule': ('timestamps: exhaustive ms windows [0,2e6), 2e6 around 1.79e12 and +-2000 around every 2**k '
             '(k=20..53 in ms and in s*1000 grid), log-uniform samples to 2**53/1000; decimals: exhaustive 1-4 digit '
             'coefficients x exp -18..18 x sign, hypothesis for 1-18 digits; durations/date-times/lexical forms by '
             'hypothesis; part props: every attribute / element-text property with a scalar (or list of scalars) converter reads '
             'inside and outside lexical forms exactly as its converter does; non-trivial = value needs > 15 significant digits, or has a negative exponent/fraction, or '
             'a ms value that is not exactly representable as float seconds (off the float grid); distinct by value'),
    'assumptions': ['STRICT_VALUE_CHECK left at its default', 'DecimalConverter.USE_DECIMAL_TYPE left at True',
                    'whitespace around lexical values is outside the explored region (the statement is silent)'],
}

TS_MAX_MS = (2 ** 53) // 1000


def _conv():
    from sdc11073.xml_types import dataconverters as dc
    return dc


# ------------------------------------------------------------------------------------------------ timestamps

def _ts_check_range(ctx, lo, hi, part):
    dc = _conv()
    to_py, to_xml = dc.TimestampConverter.to_py, dc.TimestampConverter.to_xml
    bad = 0
    nontrivial = 0
    first_bad = None
    for ms in range(lo, hi):
        s = str(ms)
        py = to_py(s)
        back = to_xml(py)
        if back != s:
            bad += 1
            if first_bad is None:
                first_bad = (ms, repr(py), back)
        if (ms % 1000) and Fraction(py) != Fraction(ms, 1000):
            nontrivial += 1
    ctx.bulk(hi - lo, nontrivial, part, sample={'ms_range': [lo, hi]})
    if bad:
        ms, py, back = first_bad
        ctx.finding(f'{P}/timestamp/xml-py-xml', f'{bad} of {hi - lo} ms values in [{lo},{hi}) change, first: '
                    f'"{ms}" -> {py} -> "{back}"', {'ms': ms}, 'ts_one')


def shard_ts_window(ctx, lo, hi):
    _ts_check_range(ctx, lo, hi, 'ts_window')


def shard_ts_sampled(ctx, n):
    rng = random.Random(ctx.sub_seed('ts_sampled'))
    dc = _conv()
    to_py, to_xml = dc.TimestampConverter.to_py, dc.TimestampConverter.to_xml
    top = math.log(TS_MAX_MS)
    bad = 0
    first_bad = None
    nontrivial = set()
    for _ in range(n):
        ms = min(TS_MAX_MS, int(math.exp(rng.uniform(0, top))))
        back = to_xml(to_py(str(ms)))
        if back != str(ms):
            bad += 1
            first_bad = first_bad or ms
        if ms % 1000:
            nontrivial.add(ms)
    ctx.bulk(n, len(nontrivial), 'ts_sampled', sample={'ms': ms})
    if bad:
        ctx.finding(f'{P}/timestamp/xml-py-xml', f'{bad} of {n} sampled ms values change, first {first_bad}',
                    {'ms': first_bad}, 'ts_one')


def ts_one(case):
    dc = _conv()
    ms = case['ms']
    back = dc.TimestampConverter.to_xml(dc.TimestampConverter.to_py(str(ms)))
    if back != str(ms):
        return [(f'{P}/timestamp/xml-py-xml', f'"{ms}" -> "{back}"')]
    return []


def ts_py(ctx, case):
    """py (seconds as float|int|Decimal) -> xml -> py: change < 1 ms, and the XML is a canonical unsignedLong."""
    dc = _conv()
    kind, v = case
    py = {'float': float, 'int': int, 'decimal': Decimal}[kind](v)
    out = []
    dc.TimestampConverter.check_valid(py)
    xml = dc.TimestampConverter.to_xml(py)
    if not re.fullmatch(r'[0-9]+', xml):
        out.append((f'{P}/timestamp/py-xml-lexical', f'{py!r} -> "{xml}" is not an unsignedLong literal'))
    else:
        back = dc.TimestampConverter.to_py(xml)
        diff = abs(Fraction(back) - Fraction(py))
        if diff >= Fraction(1, 1000):
            out.append((f'{P}/timestamp/py-xml-py', f'{py!r} -> "{xml}" -> {back!r}: differs by {float(diff)} s'))
    frac = Fraction(py) * 1000
    ctx.case(case, frac.denominator != 1, 'ts_py', classes=(kind,))
    return out


# -------------------------------------------------------------------------------------------------- decimals

DEC_RE = re.compile(r'[+-]?([0-9]+(\.[0-9]*)?|\.[0-9]+)')


def _in_18_digit_space(d: Decimal) -> bool:
    """xsd:decimal with totalDigits 18: i * 10**-n with |i| < 10**18 and 0 <= n <= 18."""
    if d == 0:
        return True
    n = d.normalize()
    sign, digits, exp = n.as_tuple()
    if len(digits) > 18:
        return False
    if exp >= 0:
        return len(digits) + exp <= 18
    return -exp <= 18


def dec_py_xml_py(d: Decimal):
    """Findings for one python Decimal (py -> xml -> py)."""
    dc = _conv()
    out = []
    xml = dc.DecimalConverter.to_xml(d)
    if not isinstance(xml, str) or 'e' in xml.lower():
        out.append((f'{P}/decimal/exponent-notation', f'{d!r} -> {xml!r}'))
        return out
    if not DEC_RE.fullmatch(xml):
        out.append((f'{P}/decimal/not-a-decimal-literal', f'{d!r} -> {xml!r}'))
        return out
    back = dc.DecimalConverter.to_py(xml)
    if back != d:
        out.append((f'{P}/decimal/py-xml-py', f'{d!r} -> "{xml}" -> {back!r}'))
    return out


def dec_xml_py_xml(s: str):
    dc = _conv()
    out = []
    py = dc.DecimalConverter.to_py(s)
    xml = dc.DecimalConverter.to_xml(py)
    if 'e' in xml.lower():
        out.append((f'{P}/decimal/exponent-notation', f'"{s}" -> {py!r} -> "{xml}"'))
    elif not DEC_RE.fullmatch(xml) or Decimal(xml) != Decimal(s):
        out.append((f'{P}/decimal/xml-py-xml', f'"{s}" -> {py!r} -> "{xml}"'))
    return out


def _plain(d: Decimal) -> str:
    return format(d, 'f')


def shard_dec_small(ctx, coeff_lo, coeff_hi):
    n = 0
    nontrivial = 0
    bad = {}
    for coeff in range(coeff_lo, coeff_hi):
        for exp in range(-18, 19):
            for sign in (0, 1):
                d = Decimal((sign, tuple(int(c) for c in str(coeff)), exp))
                if not _in_18_digit_space(d):
                    continue
                n += 1
                if exp < 0:
                    nontrivial += 1
                for sig, detail in dec_py_xml_py(d) + dec_xml_py_xml(_plain(d)):
                    bad.setdefault(sig, (detail, [sign, coeff, exp]))
    ctx.bulk(n, nontrivial, 'dec_small', sample={'coeff_range': [coeff_lo, coeff_hi], 'exp': [-18, 18]})
    for sig, (detail, case) in bad.items():
        ctx.finding(sig, detail, {'sign': case[0], 'coeff': case[1], 'exp': case[2]}, 'dec_one')


def dec_one(case):
    d = Decimal((case['sign'], tuple(int(c) for c in str(case['coeff'])), case['exp']))
    out = dec_py_xml_py(d)
    if _in_18_digit_space(d):
        out += dec_xml_py_xml(_plain(d))
    return out


def st_decimal_case():
    digits = st.integers(1, 18).flatmap(lambda n: st.integers(10 ** (n - 1) if n > 1 else 0, 10 ** n - 1))
    return st.fixed_dictionaries({'sign': st.integers(0, 1), 'coeff': digits, 'exp': st.integers(-18, 18)})


def dec_sampled(ctx, case):
    d = Decimal((case['sign'], tuple(int(c) for c in str(case['coeff'])), case['exp']))
    if not _in_18_digit_space(d):
        # outside the 18-digit value space the statement demands nothing; still no exponent notation may be written
        xml = _conv().DecimalConverter.to_xml(d)
        ctx.case(case, False, 'dec_sampled', classes=('beyond18',))
        if 'e' in str(xml).lower():
            return [(f'{P}/decimal/exponent-notation', f'{d!r} -> {xml!r}')]
        return []
    ndig = len(str(case['coeff']))
    ctx.case(case, ndig > 15 or case['exp'] < 0, 'dec_sampled',
             classes=(('gt15' if ndig > 15 else 'le15'), ('negexp' if case['exp'] < 0 else 'posexp')))
    return dec_one(case)


def st_decimal_lexical():
    intpart = st.text('0123456789', min_size=0, max_size=18)
    frac = st.text('0123456789', min_size=0, max_size=18)

    def build(sign, i, f, dot):
        if not i and not f:
            i = '0'
        if f or dot:
            if not i and not f:
                return sign + '0'
            return f'{sign}{i}.{f}'
        return sign + (i or '0')
    return st.builds(build, st.sampled_from(['', '+', '-']), intpart, frac, st.booleans()).filter(
        lambda s: DEC_RE.fullmatch(s) is not None)


def dec_lexical(ctx, s):
    d = Decimal(s)
    if not _in_18_digit_space(d):
        ctx.case(s, False, 'dec_lexical', classes=('beyond18',))
        return []
    ctx.case(s, '.' in s or len(s) > 15, 'dec_lexical', classes=(('frac' if '.' in s else 'int'),))
    return dec_xml_py_xml(s)


# ------------------------------------------------------------------------------------------------- durations

DUR_RE = re.compile(r'PT(?:(\d+)H)?(?:(\d+)M)?(?:(\d+)(?:\.(\d+))?S)?')
TD_MAX_S = 86400 * 999999999


def ref_parse_duration(s: str) -> Fraction | None:
    m = DUR_RE.fullmatch(s)
    if m is None or s == 'PT':
        return None
    h, mi, sec, fr = m.groups()
    total = Fraction(int(h or 0) * 3600 + int(mi or 0) * 60 + int(sec or 0))
    if fr:
        total += Fraction(int(fr), 10 ** len(fr))
    return total


def _ulp(x: float) -> Fraction:
    return Fraction(math.ulp(x))


def duration_py(ctx, case):
    dc = _conv()
    kind, v = case
    py = {'float': float, 'int': int, 'decimal': Decimal}[kind](v)
    out = []
    xml = dc.DurationConverter.to_xml(py)
    ref = ref_parse_duration(xml)
    tol = Fraction(1, 1_000_000) + 2 * _ulp(float(py))
    if ref is None:
        out.append((f'{P}/duration/py-xml-lexical', f'{py!r} -> "{xml}" is not an SDPi duration'))
    else:
        if abs(ref - Fraction(py)) > tol:
            out.append((f'{P}/duration/py-xml', f'{py!r} -> "{xml}" = {float(ref)!r}'))
        back = dc.DurationConverter.to_py(xml)
        if abs(Fraction(back) - Fraction(py)) > tol:
            out.append((f'{P}/duration/py-xml-py', f'{py!r} -> "{xml}" -> {back!r}'))
    ctx.case(case, Fraction(py).denominator != 1, 'duration_py', classes=(kind,))
    return out


def st_duration_string():
    def build(h, m, s, fr):
        out = 'PT'
        if h is not None:
            out += f'{h}H'
        if m is not None:
            out += f'{m}M'
        if s is not None:
            out += f'{s}' + (f'.{fr}' if fr else '') + 'S'
        return out if out != 'PT' else 'PT0S'
    opt = lambda x: st.one_of(st.none(), x)  # noqa: E731
    return st.builds(build, opt(st.integers(0, 10 ** 7)), opt(st.integers(0, 10 ** 6)), opt(st.integers(0, 10 ** 6)),
                     st.one_of(st.just(''), st.text('0123456789', min_size=1, max_size=9)))


def duration_xml(ctx, s):
    dc = _conv()
    out = []
    ref = ref_parse_duration(s)
    py = dc.DurationConverter.to_py(s)
    tol = Fraction(1, 1_000_000) + 2 * _ulp(float(ref))
    if abs(Fraction(py) - ref) > tol:
        out.append((f'{P}/duration/xml-py', f'"{s}" -> {py!r}, exact value {float(ref)!r}'))
    xml = dc.DurationConverter.to_xml(py)
    ref2 = ref_parse_duration(xml)
    if ref2 is None:
        out.append((f'{P}/duration/py-xml-lexical', f'"{s}" -> {py!r} -> "{xml}"'))
    elif abs(ref2 - ref) > 2 * tol:
        out.append((f'{P}/duration/xml-py-xml', f'"{s}" -> {py!r} -> "{xml}"'))
    ctx.case(s, '.' in s, 'duration_xml', classes=(('frac' if '.' in s else 'whole'),))
    return out


# ------------------------------------------------------------------------------------------------- date/time

def st_datetime_case():
    """A canonical lexical xsd:dateTime | date | gYearMonth | gYear with optional time zone, as plain data."""
    year = st.one_of(st.integers(0, 9999), st.integers(-99999, 99999), st.integers(1900, 2100))
    tz = st.one_of(st.none(), st.just('Z'),
                   st.tuples(st.sampled_from('+-'), st.integers(0, 14), st.integers(0, 59)).filter(
                       lambda t: (t[1], t[2]) != (0, 0) and (t[1] < 14 or t[2] == 0)))
    micro = st.one_of(st.just(0), st.integers(0, 999999), st.sampled_from([1, 500000, 999999, 100]))
    return st.fixed_dictionaries({
        'kind': st.sampled_from(['gYear', 'gYearMonth', 'date', 'dateTime', 'dateTimeEOD']),
        'year': year, 'month': st.integers(1, 12), 'day': st.integers(1, 28) | st.integers(1, 31),
        'hour': st.integers(0, 23), 'minute': st.integers(0, 59), 'second': st.integers(0, 59), 'micro': micro,
        'tz': tz})


def _dt_string(c) -> str:
    y = c['year']
    s = ('-' if y < 0 else '') + f'{abs(y):04d}'
    if c['kind'] != 'gYear':
        s += f'-{c["month"]:02d}'
        if c['kind'] != 'gYearMonth':
            s += f'-{c["day"]:02d}'
            if c['kind'] == 'dateTime':
                s += f'T{c["hour"]:02d}:{c["minute"]:02d}:{c["second"]:02d}'
                if c['micro']:
                    s += ('.' + f'{c["micro"]:06d}').rstrip('0')
            elif c['kind'] == 'dateTimeEOD':
                s += 'T24:00:00'
    tz = c['tz']
    if tz == 'Z':
        s += 'Z'
    elif tz is not None:
        s += f'{tz[0]}{tz[1]:02d}:{tz[2]:02d}'
    return s


def datetime_case(ctx, c):
    from sdc11073.xml_types import isoduration
    out = []
    s = _dt_string(c)
    kind = c['kind']
    try:
        info = isoduration.parse_date_time(s)
    except ValueError as ex:
        ctx.case(c, False, 'datetime', classes=(kind,))
        return [(f'{P}/datetime/valid-form-rejected/{kind}', f'"{s}": {ex}')]
    # field-wise comparison against the generated components (independent of the library's formatter)
    exp_fields = {'year': c['year'], 'month': None, 'day': None, 'hour': None, 'minute': None,
                  'end_of_day': False}
    if kind != 'dateTime' and info.second is not None:
        out.append((f'{P}/datetime/xml-py/second', f'"{s}" -> second {info.second!r}'))
    if kind != 'gYear':
        exp_fields['month'] = c['month']
    if kind in ('date', 'dateTime', 'dateTimeEOD'):
        exp_fields['day'] = c['day']
    if kind == 'dateTime':
        exp_fields.update(hour=c['hour'], minute=c['minute'])
    if kind == 'dateTimeEOD':
        exp_fields['end_of_day'] = True
    for k, v in exp_fields.items():
        if getattr(info, k) != v:
            out.append((f'{P}/datetime/xml-py/{k}', f'"{s}" -> {info!r}'))
    if kind == 'dateTime':
        sec_exact = Fraction(c['second']) + Fraction(c['micro'], 1_000_000)
        if info.second is None or abs(Fraction(info.second) - sec_exact) > Fraction(1, 1_000_000):
            out.append((f'{P}/datetime/xml-py/second', f'"{s}" -> second {info.second!r}'))
    tz = c['tz']
    exp_off = None
    if tz == 'Z':
        exp_off = datetime.timedelta(0)
    elif tz is not None:
        exp_off = datetime.timedelta(minutes=(tz[1] * 60 + tz[2]) * (1 if tz[0] == '+' else -1))
    got_off = info.tz_info.utcoffset(None) if info.tz_info is not None else None
    if got_off != exp_off:
        out.append((f'{P}/datetime/xml-py/tz', f'"{s}" -> tz {info.tz_info!r}'))
    back = str(info)
    if back != s:
        out.append((f'{P}/datetime/xml-py-xml', f'"{s}" -> {info!r} -> "{back}"'))
    else:
        again = isoduration.parse_date_time(back)
        if again != info:
            out.append((f'{P}/datetime/py-xml-py', f'{info!r} -> "{back}" -> {again!r}'))
    ctx.case(c, tz is not None or bool(c['micro'] and kind == 'dateTime'), 'datetime', classes=(kind,))
    return out


# ------------------------------------------------------------------------------------ simple types + outside

ENUM_MODULES = ['sdc11073.xml_types.pm_types', 'sdc11073.xml_types.msg_types', 'sdc11073.xml_types.eventing_types',
                'sdc11073.xml_types.wsd_types', 'sdc11073.xml_types.dpws_types', 'sdc11073.xml_types.mex_types',
                'sdc11073.xml_types.addressing_types']


def all_enum_classes():
    seen = {}
    for name in ENUM_MODULES:
        mod = importlib.import_module(name)
        for attr in sorted(vars(mod)):
            obj = getattr(mod, attr)
            if isinstance(obj, type) and issubclass(obj, enum.Enum) and obj.__module__.startswith('sdc11073') \
                    and len(obj) > 0:
                seen.setdefault(f'{obj.__module__}.{obj.__qualname__}', obj)
    return seen


BOOL_OUTSIDE = ['TRUE', 'True', 'FALSE', 'False', 'yes', 'no', 'on', 'off', 'T', 'F', '2', '-1', '00', '01', '10',
                'tru', 'truee', 'false0', '0.0', '1.0', 'null', 'None', 'nil', 'ja']
INT_OUTSIDE = ['', '1.0', '1.5', '1e3', '1E3', '0x10', '1_000', 'abc', '1,000', '--1', '+-1', '1-', 'NaN', 'INF',
               '١٢', '1 2', '１']
DEC_OUTSIDE = ['', '1e5', '1E5', '1e-5', '1.5E3', 'NaN', 'nan', 'INF', '-INF', 'Infinity', '-Infinity', 'inf', 'sNaN',
               '1_0', '1_0.5', '1,5', '.', '+', '-', '+.', '1.2.3', '--1', 'abc', '0x1', '١.٢', '1 2']
TS_OUTSIDE = ['', '-1', '-1000', '1.5', '1e3', '1_000', '0x10', 'abc', '١٢', '1 000', 'NaN', '-0.5']
DUR_OUTSIDE = ['', 'P', 'PT', 'P1D', 'P1Y', 'P1M', 'P1DT1H', '-PT1S', 'PT-1S', 'PT1.S', 'PT.5S', 'PT1H1H', 'PT1S1M',
               'PT1M1H', 'T1S', 'PT1', '1S', 'PT1,5S', 'PT1e3S', 'pt1s', 'PT1s', 'PT 1S',
               'PT1_0S', 'PT+1S', 'PT١S', 'PT1.5M', 'PT1.5H', 'PT1.2.3S']
DT_OUTSIDE = ['', '٢٠٢٠', '2020-٠٥', '20', '202', '2020-1', '2020-1-01', '2020-13', '2020-00', '2020-01-00', '2020-01-32',
              '2020-01-01T', '2020-01-01T10', '2020-01-01T10:00', '2020-01-01T25:00:00', '2020-01-01T10:60:00',
              '2020-01-01T10:00:60', '2020-01-01T10:00:61', '2020-01-01T24:00:01', '2020-01-01T24:01:00',
              '2020-01-01 10:00:00', '2020-01-01t10:00:00', '2020-01-01T10:00:00z', '2020-01-01T10:00:00+1',
              '2020-01-01T10:00:00+01', '2020-01-01T10:00:00+0100', '2020-01-01T10:00:00+15:00',
              '2020-01-01T10:00:00+14:01', '2020-01-01T10:00:00+01:60', '2020-01-01T10:00:00.', 'T10:00:00',
              '10:00:00', '--01-01', '02020', '+2020', '2020-', '2020-01-', '2020-01-01Z1', '2020Z+01:00',
              '2020-01-01T10:00:00 Z', '2020-01-01T1:00:00', '2020-01-01T10:0:00', '2020-01-01T10:00:0', 'abc',
              '2020-01-01T10:00:00.5.5', '2020/01/01', '01-01-2020', '2020-01-01T10:00:00+01:00Z']


def _must_raise(fn, s, sig, label):
    try:
        v = fn(s)
    except (ValueError, TypeError, ArithmeticError, KeyError):
        return []
    return [(sig, f'{label}: lexical form {s!r} is accepted and becomes {v!r}')]


def outside_case(kind: str, s: str):
    dc = _conv()
    from sdc11073.xml_types import isoduration
    if kind == 'bool':
        return _must_raise(dc.BooleanConverter.to_py, s, f'{P}/outside/boolean', 'xsd:boolean')
    if kind == 'int':
        return _must_raise(dc.IntegerConverter.to_py, s, f'{P}/outside/integer', 'xsd:integer')
    if kind == 'decimal':
        return _must_raise(dc.DecimalConverter.to_py, s, f'{P}/outside/decimal', 'xsd:decimal')
    if kind == 'timestamp':
        return _must_raise(dc.TimestampConverter.to_py, s, f'{P}/outside/timestamp', 'pm:Timestamp (unsignedLong)')
    if kind == 'duration':
        return _must_raise(dc.DurationConverter.to_py, s, f'{P}/outside/duration', 'xsd:duration (SDPi subset)')
    if kind == 'datetime':
        return _must_raise(isoduration.parse_date_time, s, f'{P}/outside/datetime', 'xsd date/time')
    if kind.startswith('enum:'):
        cls = all_enum_classes()[kind[5:]]
        return _must_raise(dc.EnumConverter(cls).to_py, s, f'{P}/outside/enum', f'enum {kind[5:]}')
    raise R.HarnessError(f'unknown outside kind {kind}')


def simple_and_outside(ctx):
    dc = _conv()
    # booleans / integers / enums: complete small domains
    for s, v in (('true', True), ('1', True), ('false', False), ('0', False)):
        got = dc.BooleanConverter.to_py(s)
        ctx.case(['bool', s], True, 'simple')
        if got is not v:
            ctx.finding(f'{P}/boolean/xml-py', f'"{s}" -> {got!r}', {'kind': 'boolxml', 's': s}, 'simple_one')
    for v in (True, False):
        xml = dc.BooleanConverter.to_xml(v)
        ctx.case(['boolpy', v], True, 'simple')
        if xml not in (('true', '1') if v else ('false', '0')) or dc.BooleanConverter.to_py(xml) is not v:
            ctx.finding(f'{P}/boolean/py-xml-py', f'{v!r} -> "{xml}"', {'kind': 'boolpy', 'v': v}, 'simple_one')
    ints = list(range(-1100, 1101)) + [s * (2 ** k) + d for k in range(8, 80, 3) for d in (-1, 0, 1) for s in (1, -1)]
    for i in ints:
        xml = dc.IntegerConverter.to_xml(i)
        ctx.case(['int', i], abs(i) > 2 ** 53, 'simple')
        if not re.fullmatch(r'-?[0-9]+', xml) or dc.IntegerConverter.to_py(xml) != i:
            ctx.finding(f'{P}/integer/py-xml-py', f'{i} -> "{xml}"', {'kind': 'int', 'v': i}, 'simple_one')
        for lex in (str(i), ('+' + str(i)) if i >= 0 else str(i), ('-00' + str(-i)) if i < 0 else '00' + str(i)):
            if dc.IntegerConverter.to_py(lex) != i:
                ctx.finding(f'{P}/integer/xml-py', f'"{lex}" -> {dc.IntegerConverter.to_py(lex)!r}',
                            {'kind': 'intlex', 's': lex, 'v': i}, 'simple_one')
    enums = all_enum_classes()
    for name, cls in enums.items():
        conv = dc.EnumConverter(cls)
        for member in cls:
            lit = member.value
            ctx.case(['enum', name, str(lit)], True, 'simple')
            got = conv.to_py(lit)
            if got is not member or conv.to_xml(got) != lit:
                ctx.finding(f'{P}/enum/roundtrip', f'{name}: "{lit}" -> {got!r} -> "{conv.to_xml(got)}"',
                            {'kind': 'enum', 'cls': name, 'lit': lit}, 'simple_one')
        if all(isinstance(m.value, str) for m in cls):
            lits = {m.value for m in cls}
            for member in cls:
                for variant in {member.value.lower(), member.value.upper(), member.value + ' ', ' ' + member.value,
                                member.value[:-1], member.value + 'x', member.name}:
                    if variant in lits or variant == '':
                        continue
                    ctx.case(['enum-outside', name, variant], True, 'outside')
                    for sig, detail in outside_case('enum:' + name, variant):
                        ctx.finding(sig, detail, {'kind': 'enum:' + name, 's': variant}, 'outside_one')
    ctx.count('enum_classes', len(enums))
    for kind, forms in (('bool', BOOL_OUTSIDE), ('int', INT_OUTSIDE), ('decimal', DEC_OUTSIDE),
                        ('timestamp', TS_OUTSIDE), ('duration', DUR_OUTSIDE), ('datetime', DT_OUTSIDE)):
        for s in forms:
            ctx.case(['outside', kind, s], True, 'outside', classes=(kind,))
            for sig, detail in outside_case(kind, s):
                ctx.finding(sig, detail, {'kind': kind, 's': s}, 'outside_one')


def simple_one(case):
    dc = _conv()
    k = case['kind']
    if k == 'boolxml':
        got = dc.BooleanConverter.to_py(case['s'])
        return [] if got is (case['s'] in ('true', '1')) else [(f'{P}/boolean/xml-py', repr(got))]
    if k == 'boolpy':
        xml = dc.BooleanConverter.to_xml(case['v'])
        return [] if dc.BooleanConverter.to_py(xml) is case['v'] else [(f'{P}/boolean/py-xml-py', xml)]
    if k == 'int':
        xml = dc.IntegerConverter.to_xml(case['v'])
        ok = re.fullmatch(r'-?[0-9]+', xml) and dc.IntegerConverter.to_py(xml) == case['v']
        return [] if ok else [(f'{P}/integer/py-xml-py', xml)]
    if k == 'intlex':
        got = dc.IntegerConverter.to_py(case['s'])
        return [] if got == case['v'] else [(f'{P}/integer/xml-py', repr(got))]
    if k == 'enum':
        cls = all_enum_classes()[case['cls']]
        conv = dc.EnumConverter(cls)
        got = conv.to_py(case['lit'])
        return [] if conv.to_xml(got) == case['lit'] else [(f'{P}/enum/roundtrip', repr(got))]
    raise R.HarnessError(f'unknown simple kind {k}')


def st_outside_mutation():
    """Valid literals damaged by one generated edit; kept only if an independent recogniser says 'outside'."""
    alphabet = st.sampled_from(list('0123456789+-.:eETZPHMSx_, '))

    def mutate(args):
        base, pos, ch, mode = args
        pos = pos % (len(base) + 1)
        if mode == 0:
            return base[:pos] + ch + base[pos:]
        if mode == 1 and base:
            p = pos % len(base)
            return base[:p] + ch + base[p + 1:]
        if base:
            p = pos % len(base)
            return base[:p] + base[p + 1:]
        return ch
    seeds = {
        'decimal': ['0', '12', '-3.5', '+0.001', '123456.789', '.5', '5.'],
        'timestamp': ['0', '1001', '1790000000000'],
        'duration': ['PT0S', 'PT1H', 'PT1H2M3S', 'PT0.5S', 'PT10M', 'PT1H0.000001S'],
        'datetime': ['2020', '2020-05', '2020-05-17', '2020-05-17T10:11:12', '2020-05-17T10:11:12.5Z',
                     '2020-05-17T24:00:00+02:00', '-0044-03-15', '2020Z', '2020-05-17-05:30'],
        'int': ['0', '-12', '+7', '1234567890123456789012'],
        'bool': ['true', 'false', '0', '1'],
    }
    return st.sampled_from(sorted(seeds)).flatmap(lambda k: st.tuples(
        st.just(k), st.tuples(st.sampled_from(seeds[k]), st.integers(0, 40), alphabet, st.integers(0, 2)).map(mutate)))


_DT_OK = re.compile(
    r'-?(?:[1-9][0-9]{3,}|0[0-9]{3})'
    r'(?:-(?:0[1-9]|1[0-2])(?:-(?:0[1-9]|[12][0-9]|3[01])'
    r'(?:T(?:(?:[01][0-9]|2[0-3]):[0-5][0-9]:[0-5][0-9](?:\.[0-9]+)?|24:00:00(?:\.0+)?))?)?)?'
    r'(?:Z|[+-](?:(?:0[0-9]|1[0-3]):[0-5][0-9]|14:00))?')


def ref_inside(kind: str, s: str) -> bool:
    """Independent recogniser of the lexical spaces (ASCII digits only)."""
    if kind == 'decimal':
        return DEC_RE.fullmatch(s) is not None
    if kind == 'timestamp':
        return re.fullmatch(r'\+?[0-9]+|-0+', s) is not None
    if kind == 'int':
        return re.fullmatch(r'[+-]?[0-9]+', s) is not None
    if kind == 'bool':
        return s in ('true', 'false', '0', '1')
    if kind == 'duration':
        return ref_parse_duration(s) is not None
    if kind == 'datetime':
        return _DT_OK.fullmatch(s) is not None
    raise R.HarnessError(kind)


def outside_mut(ctx, case):
    kind, s = case
    if s != s.strip() or ref_inside(kind, s):
        ctx.case(case, False, 'outside_mut', classes=('still-inside',))
        return []
    ctx.case(case, True, 'outside_mut', classes=(kind,))
    return outside_case(kind, s)



# ---------------------------------------------------------------- part props: the same conversion through every property
VALID_FORMS = {'decimal': ['0', '-3.5', '+0.001', '12', '100', '120.0'], 'int': ['0', '-12', '+7', '100'],
               'uint': ['0', '7', '100'], 'bool': ['true', 'false', '0', '1'], 'timestamp': ['0', '1001', '1790000000000'],
               'duration': ['PT0S', 'PT1H2M3S', 'PT0.5S']}
OUTSIDE_FORMS = {'decimal': DEC_OUTSIDE, 'int': INT_OUTSIDE, 'uint': INT_OUTSIDE + ['-1'], 'bool': BOOL_OUTSIDE,
                 'timestamp': TS_OUTSIDE, 'duration': DUR_OUTSIDE}


def _kind_of_converter(conv):
    dc = _conv()
    c = conv if isinstance(conv, type) else type(conv)
    if isinstance(conv, dc.ListConverter):
        inner = _kind_of_converter(conv._element_converter)  # noqa: SLF001
        return None if inner is None else 'list:' + inner
    for klass, kind in ((dc.DecimalConverter, 'decimal'), (dc.UnsignedIntConverter, 'uint'), (dc.UnsignedLongConverter, 'uint'),
                        (dc.IntegerConverter, 'int'), (dc.BooleanConverter, 'bool'), (dc.TimestampConverter, 'timestamp'),
                        (dc.DurationConverter, 'duration')):
        if c is klass or (isinstance(c, type) and issubclass(c, klass)):
            return kind
    return None


def scalar_properties():
    """[(class name, member, property, kind, 'attr' | 'text')] for every member whose value goes through a scalar converter."""
    from sdc11073.xml_types import xml_structure as xs
    from vf.gen import types as T
    out, seen = [], set()
    for cname, cls in sorted(T.all_classes().items()):
        try:
            props = T.new_instance(cls).sorted_container_properties()
        except Exception:  # noqa: BLE001
            continue
        for name, prop in props:
            if id(prop) in seen:
                continue
            seen.add(id(prop))
            kind = _kind_of_converter(getattr(prop, '_converter', None))
            if kind is None:
                continue
            if isinstance(prop, (xs._AttributeBase, xs._AttributeListBase)):  # noqa: SLF001
                out.append((cname, name, prop, kind, 'attr'))
            elif isinstance(prop, xs.NodeTextProperty):
                out.append((cname, name, prop, kind, 'text'))
    return out


def _read_through_property(prop, where, lexical):
    from lxml import etree
    node = etree.Element('{urn:vf}probe')
    if where == 'attr':
        node.set(prop._attribute_name, lexical)  # noqa: SLF001
    else:
        child = etree.SubElement(node, prop._sub_element_name)  # noqa: SLF001
        child.text = lexical
    return prop.get_py_value_from_node(None, node)


def props_part(ctx):
    """Every property that reads a scalar (or a list of scalars) must read each lexical form exactly as its converter
    does: the same value for a form inside the type, an error for a form outside of it (the converters themselves are
    judged by the other parts)."""
    dc = _conv()
    conv_of = {'decimal': dc.DecimalConverter, 'int': dc.IntegerConverter, 'uint': dc.UnsignedIntConverter,
               'bool': dc.BooleanConverter, 'timestamp': dc.TimestampConverter, 'duration': dc.DurationConverter}
    errors = (ValueError, TypeError, ArithmeticError, KeyError)
    n_props = 0
    for cname, member, prop, kind, where in scalar_properties():
        n_props += 1
        is_list = kind.startswith('list:')
        base = kind.split(':')[-1]
        conv = prop._converter._element_converter if is_list else prop._converter  # noqa: SLF001
        for inside, forms in ((True, VALID_FORMS[base]), (False, OUTSIDE_FORMS[base])):
            for form in forms:
                if where == 'text' and form == '':
                    continue  # (an empty element has no text)
                if is_list and (form == '' or ' ' in form):
                    continue  # (the list separator)
                lexical = f'{VALID_FORMS[base][1]} {form}' if is_list else form
                try:
                    want = ('value', conv.to_py(form))
                except errors:
                    want = ('error', None)
                try:
                    got = _read_through_property(prop, where, lexical)
                    got = ('value', got[-1] if is_list and isinstance(got, list) and got else got)
                except errors:
                    got = ('error', None)
                ctx.case(['prop', cname, member, lexical], not inside, 'props', classes=(kind, where))
                if got != want and not (got[0] == want[0] == 'value' and repr(got[1]) == repr(want[1])):
                    sig = f'{P}/outside/boolean' if base == 'bool' and want[0] == 'value' else (
                        f'{P}/property-reads-differently/{type(prop).__name__}/{kind}')
                    ctx.finding(sig, f'{cname.split(".")[-1]}.{member} reads {lexical!r} as {got}, its converter '
                                     f'{type(conv).__name__ if not isinstance(conv, type) else conv.__name__} gives {want}',
                                {'cls': cname, 'member': member, 'lexical': lexical}, 'prop_one')
    ctx.count('props/properties', n_props)
    _ = conv_of


def prop_one(case):
    ctx = R.Ctx(P, 'quick', 0, {})
    found = []
    ctx.finding = lambda sig, detail, *_a, **_k: found.append((sig, detail))
    for cname, member, prop, kind, where in scalar_properties():
        if cname == case['cls'] and member == case['member']:
            is_list = kind.startswith('list:')
            conv = prop._converter._element_converter if is_list else prop._converter  # noqa: SLF001
            form = case['lexical'].split(' ')[-1] if is_list else case['lexical']
            errors = (ValueError, TypeError, ArithmeticError, KeyError)
            try:
                want = ('value', conv.to_py(form))
            except errors:
                want = ('error', None)
            try:
                got = _read_through_property(prop, where, case['lexical'])
                got = ('value', got[-1] if is_list and isinstance(got, list) and got else got)
            except errors:
                got = ('error', None)
            if got != want and not (got[0] == want[0] == 'value' and repr(got[1]) == repr(want[1])):
                found.append((f'{P}/property-reads-differently/{type(prop).__name__}/{kind}',
                              f'{member} reads {case["lexical"]!r} as {got}, its converter gives {want}'))
    return found


def shard_props(ctx):
    props_part(ctx)


# ------------------------------------------------------------------------------------------------------- run

def shard_hyp(ctx, which, n):
    py_num = st.one_of(
        st.tuples(st.just('float'), st.floats(0, TS_MAX_MS / 1000, allow_nan=False)),
        st.tuples(st.just('float'), st.builds(lambda ms, f: (ms + f) / 1000, st.integers(0, 4 * 10 ** 9),
                                              st.floats(0, 0.999))),
        st.tuples(st.just('int'), st.integers(0, TS_MAX_MS // 1000)),
        st.tuples(st.just('decimal'), st.builds(lambda ms, us: str(Decimal(ms) / 1000 + Decimal(us) / 10 ** 6),
                                                st.integers(0, TS_MAX_MS), st.integers(0, 999))))
    dur_num = st.one_of(
        st.tuples(st.just('float'), st.floats(0, TD_MAX_S * 0.999, allow_nan=False)),
        st.tuples(st.just('float'), st.floats(0, 100000, allow_nan=False)),
        st.tuples(st.just('float'), st.builds(lambda us: us / 10 ** 6, st.integers(0, 10 ** 10))),
        st.tuples(st.just('int'), st.integers(0, 10 ** 9)),
        st.tuples(st.just('decimal'), st.builds(lambda us: str(Decimal(us) / 10 ** 6), st.integers(0, 10 ** 13))))
    table = {
        'ts_py': (py_num, lambda c: ts_py(ctx, c)),
        'dec_sampled': (st_decimal_case(), lambda c: dec_sampled(ctx, c)),
        'dec_lexical': (st_decimal_lexical(), lambda c: dec_lexical(ctx, c)),
        'duration_py': (dur_num, lambda c: duration_py(ctx, c)),
        'duration_xml': (st_duration_string(), lambda c: duration_xml(ctx, c)),
        'datetime': (st_datetime_case(), lambda c: datetime_case(ctx, c)),
        'outside_mut': (st_outside_mutation(), lambda c: outside_mut(ctx, c)),
    }
    strat, fn = table[which]
    R.hyp_campaign(ctx, which, strat, fn, n)


def shard_simple(ctx):
    simple_and_outside(ctx)


def run(ctx):
    quick = ctx.tier == 'quick'
    # --- exhaustive timestamp windows
    windows = [(0, 2_000_000), (1_790_000_000_000, 1_790_002_000_000)]
    if not quick:
        windows += [(2_000_000, 20_000_000), (1_790_002_000_000, 1_790_010_000_000)]
    for k in range(20, 54):
        for centre in (2 ** k, (2 ** k) * 1000):
            if centre - 2000 > 2_000_000 and centre + 2000 <= TS_MAX_MS:
                windows.append((centre - 2000, centre + 2000))
    windows.append((TS_MAX_MS - 4000, TS_MAX_MS + 1))
    jobs = []
    for lo, hi in windows:
        step = 250_000
        for a in range(lo, hi, step):
            jobs.append((a, min(hi, a + step)))
    R.run_shards(ctx, __name__, 'shard_ts_window', jobs)
    ctx.exhaustive_parts.append('ts_window')
    R.run_shards(ctx, __name__, 'shard_ts_sampled', [(100_000 if quick else 1_000_000,)] * 8)
    # --- decimals
    top = 10_000
    step = 625 if quick else 625
    R.run_shards(ctx, __name__, 'shard_dec_small', [(a, min(top, a + step)) for a in range(0, top, step)])
    ctx.exhaustive_parts.append('dec_small')
    n = 1 if quick else 12
    hyp_jobs = []
    for which, cnt in (('ts_py', 6000), ('dec_sampled', 6000), ('dec_lexical', 4000), ('duration_py', 5000),
                       ('duration_xml', 4000), ('datetime', 5000), ('outside_mut', 6000)):
        for _ in range(2 if quick else 4):
            hyp_jobs.append((which, cnt * n))
    R.run_shards(ctx, __name__, 'shard_hyp', hyp_jobs)
    R.run_shards(ctx, __name__, 'shard_simple', [()])
    R.run_shards(ctx, __name__, 'shard_props', [()])
    ctx.exhaustive_parts.append('props: every scalar-valued property x the fixed lists of inside / outside lexical forms')


def replay(part, case):
    ctx = R.Ctx(P, 'quick', 0, {})
    if part == 'ts_one':
        return ts_one(case)
    if part == 'dec_one':
        return dec_one(case)
    if part == 'simple_one':
        return simple_one(case)
    if part == 'outside_one':
        return outside_case(case['kind'], case['s'])
    if part == 'prop_one':
        return prop_one(case)
    fn = {'ts_py': ts_py, 'dec_sampled': dec_sampled, 'dec_lexical': dec_lexical, 'duration_py': duration_py,
          'duration_xml': duration_xml, 'datetime': datetime_case, 'outside_mut': outside_mut}.get(part)
    if fn is None:
        raise R.HarnessError(f'unknown part {part}')
    if isinstance(case, list):
        case = tuple(case)
    return fn(ctx, case)
