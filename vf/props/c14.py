"""C14 - WS-Discovery answers and records exactly what its matching rules prescribe."""
from __future__ import annotations

import re

from hypothesis import strategies as st

from vf import run as R
from vf import wsdharness as H

P = 'C14'
META = {
    'level': 'exploration',
    'rule': ('part scope: pairs of scope URIs built from parts (mixed-case scheme and authority, ports, userinfo, path '
             'segments incl. %2F, %41-style encodings, empty segments, trailing slash, dots, non-ASCII) x matching rule, '
             'against an independent reference matcher + algebraic laws; part filter: services x type lists x scopes; '
             'part history: sequences of Hello/ProbeMatches/ResolveMatches/Bye/Probe/Resolve datagrams (own factory, '
             'serialised, re-read through _run_q_read) incl. > 200 distinct ids; non-trivial = pair differs only by '
             'case/encoding/one segment, or the history contains an out-of-order version or a duplicate id'),
    'assumptions': ['no raw ? or # inside the scopes of the differential part (the statement is silent on query/fragment)',
                    'ldap / uuid / unknown matching rules are only checked for totality',
                    'announcements carry an AppSequence header (those without are documented to be ignored)'],
}

NS_D = 'http://docs.oasis-open.org/ws-dd/ns/discovery/2009/01'
RFC3986 = NS_D + '/rfc3986'
STRCMP = NS_D + '/strcmp0'
_URI = re.compile(r'^(([^:/?#]+):)?(//([^/?#]*))?([^?#]*)(\?([^#]*))?(#(.*))?')


def pct_decode(seg: str) -> str:
    out = bytearray()
    i = 0
    b = seg.encode('utf-8')
    while i < len(b):
        if b[i:i + 1] == b'%' and re.fullmatch(rb'[0-9A-Fa-f]{2}', b[i + 1:i + 3]):
            out.append(int(b[i + 1:i + 3], 16))
            i += 3
        else:
            out.append(b[i])
            i += 1
    return out.decode('utf-8', errors='replace')


def ref_match(src: str, target: str, rule) -> bool:
    """Reference: does `src` (the probe's scope) match `target` (the service's scope)?"""
    if rule == STRCMP:
        return src == target
    ms, mt = _URI.match(src), _URI.match(target)
    if (ms.group(2) or '').lower() != (mt.group(2) or '').lower():
        return False
    if (ms.group(4) or '').lower() != (mt.group(4) or '').lower():
        return False
    ss = [pct_decode(x) for x in ms.group(5).split('/')]
    ts = [pct_decode(x) for x in mt.group(5).split('/')]
    if len(ss) > len(ts):
        return False
    return all(a == b for a, b in zip(ss, ts))


SEG = st.one_of(st.sampled_from(['a', 'b', 'A', 'ab', 'a%2Fb', '%41', '%61', 'a.b', '.', '..', '', 'ä', '%C3%A4', 'x y'.replace(' ', '%20'),
                                 'abc', 'abcdef', '%2F', '%2f', 'a%2fb', '~', '%7E']),
                st.text('abAB01-._~', min_size=1, max_size=4))
SCHEME = st.sampled_from(['http', 'HTTP', 'Http', 'sdc.ctxt.loc', 'SDC.ctxt.LOC', 'urn', 'ldap', 'x-y+z'])
AUTH = st.sampled_from([None, 'example.org', 'EXAMPLE.org', 'example.org:80', 'user@Host', 'USER@host', '127.0.0.1:8080', ''])


def build_uri(scheme, auth, segs, trailing):
    s = f'{scheme}:'
    if auth is not None:
        s += f'//{auth}'
    s += ''.join('/' + x for x in segs)
    if trailing:
        s += '/'
    return s


URI_PARTS = st.tuples(SCHEME, AUTH, st.lists(SEG, max_size=4), st.booleans())


def st_pair():
    def derive(parts, mode, extra, case_flip):
        scheme, auth, segs, trailing = parts
        t_scheme, t_auth, t_segs, t_trailing = scheme, auth, list(segs), trailing
        if mode == 'same':
            pass
        elif mode == 'append':
            t_segs = t_segs + extra
            t_trailing = False
        elif mode == 'case':
            t_scheme = scheme.swapcase()
            t_auth = auth.swapcase() if auth else auth
        elif mode == 'reencode':
            t_segs = [x.replace('A', '%41').replace('a', '%61') if case_flip else x.replace('%41', 'A').replace('%61', 'a')
                      for x in t_segs]
        elif mode == 'one-segment' and t_segs:
            t_segs[len(t_segs) // 2] = extra[0] if extra else 'zz'
        elif mode == 'truncate' and t_segs:
            t_segs = t_segs[:-1]
        elif mode == 'string-extend' and t_segs:
            t_segs[-1] = t_segs[-1] + 'def'
        return build_uri(scheme, auth, segs, trailing), build_uri(t_scheme, t_auth, t_segs, t_trailing), mode
    related = st.builds(derive, URI_PARTS, st.sampled_from(['same', 'append', 'case', 'reencode', 'one-segment', 'truncate',
                                                            'string-extend']),
                        st.lists(SEG, min_size=1, max_size=2), st.booleans())
    unrelated = st.tuples(URI_PARTS, URI_PARTS).map(lambda t: (build_uri(*t[0]), build_uri(*t[1]), 'independent'))
    rule = st.sampled_from([RFC3986, RFC3986, STRCMP, None, '', NS_D + '/ldap', NS_D + '/uuid', 'urn:unknown-rule'])
    return st.tuples(st.one_of(related, related, unrelated), rule)


def scope_case(ctx, case):
    from sdc11073.wsdiscovery import wsdimpl
    (src, target, mode), rule = case
    ctx.case(case, mode in ('case', 'reencode', 'one-segment', 'append', 'string-extend'), 'scope', classes=(mode, str(rule).split('/')[-1]))
    out = []
    try:
        got = wsdimpl.match_scope(src, target, rule)
    except Exception as ex:  # noqa: BLE001
        if not R.exc_in_library(ex):
            raise
        return [(f'{P}/match_scope-raises/{R.exc_sig(ex)}', f'match_scope({src!r}, {target!r}, {rule!r}): {ex}')]
    if rule in (RFC3986, STRCMP, None, ''):
        eff = STRCMP if rule == STRCMP else RFC3986
        want = ref_match(src, target, eff)
        if got != want:
            out.append((f'{P}/match_scope-differs/{str(eff).split("/")[-1]}/{mode}',
                        f'match_scope({src!r}, {target!r}, {rule!r}) = {got}, reference says {want}'))
        if eff == RFC3986 and not out:
            # laws
            if not wsdimpl.match_scope(src, src, rule):
                out.append((f'{P}/law/reflexive', f'{src!r} does not match itself'))
            if got:
                ext = target.rstrip('/') + '/zz' if not target.endswith('/') else target + 'zz'
                if not target.endswith('/') and not wsdimpl.match_scope(src, ext, rule):
                    out.append((f'{P}/law/append-preserves-match', f'{src!r} matches {target!r} but not {ext!r}'))
    return out


def st_filter_case():
    qn = st.sampled_from([('urn:t', 'A'), ('urn:t', 'B'), ('urn:u', 'A'), ('urn:t', 'a')])
    uri = URI_PARTS.map(lambda p: build_uri(*p))
    svc = st.tuples(st.lists(qn, max_size=3, unique=True), st.one_of(st.none(), st.lists(uri, max_size=3)))
    return st.tuples(st.lists(svc, min_size=1, max_size=4), st.one_of(st.none(), st.lists(qn, max_size=2)),
                     st.one_of(st.none(), st.tuples(st.lists(uri, max_size=2), st.sampled_from([RFC3986, STRCMP, None]))))


def filter_case(ctx, case):
    from lxml import etree

    from sdc11073.wsdiscovery import wsdimpl
    from sdc11073.wsdiscovery.service import Service
    from sdc11073.xml_types.wsd_types import ScopesType
    svcs, types, scopes = case
    services = []
    for i, (t, sc) in enumerate(svcs):
        st_ = None
        if sc is not None:
            st_ = ScopesType()
            st_.text.extend(sc)
        services.append(Service([etree.QName(*x) for x in t], st_, [], f'urn:epr:{i}', '1'))
    qtypes = None if types is None else [etree.QName(*x) for x in types]
    qscopes = None
    if scopes is not None:
        qscopes = ScopesType()
        qscopes.text.extend(scopes[0])
        qscopes.MatchBy = scopes[1]
    ctx.case(case, bool(types) and bool(scopes and scopes[0]), 'filter')
    try:
        got = {s.epr for s in wsdimpl.filter_services(services, qtypes, qscopes)}
    except Exception as ex:  # noqa: BLE001
        if not R.exc_in_library(ex):
            raise
        return [(f'{P}/filter_services-raises/{R.exc_sig(ex)}', f'{case}: {ex}')]
    want = set()
    for i, (t, sc) in enumerate(svcs):
        ok = all(x in t for x in (types or []))
        if ok and scopes is not None:
            rule = STRCMP if scopes[1] == STRCMP else RFC3986
            for u in scopes[0]:
                if not any(ref_match(u, e, rule) for e in (sc or [])):
                    ok = False
        if ok:
            want.add(f'urn:epr:{i}')
    if got != want:
        return [(f'{P}/filter_services-differs/{"extra" if got - want else "missing"}',
                 f'types={types} scopes={scopes}: returned {sorted(got)}, reference {sorted(want)}; services={svcs}')]
    return []


# ------------------------------------------------------------------------------------------------- histories

EPRS = ['urn:uuid:e1', 'urn:uuid:e2', 'urn:uuid:e3']
LOCAL = ['urn:uuid:l1', 'urn:uuid:l2']


def f_types(epr, v):
    return [('urn:t', 'A'), ('urn:t', f'V{v % 3}')] if (len(epr) + v) % 2 else [('urn:t', 'B')]


def f_scopes(epr, v):
    return [f'http://example.org/{epr[-2:]}/v{v}', 'sdc.ctxt.loc:/r/x']


def f_xaddrs(epr, v):
    return [f'http://10.0.0.{v % 250 + 1}:80/{epr[-2:]}']


def st_history(long_ids: bool):
    mid = st.one_of(st.integers(0, 6), st.integers(0, 6), st.integers(0, 400))  # a small pool makes duplicates frequent
    ann = st.tuples(st.sampled_from(['hello', 'probematch', 'resolvematch']), st.sampled_from(EPRS), st.integers(0, 5),
                    st.booleans(), st.booleans(), st.booleans(), mid).map(list)
    bye = st.tuples(st.just('bye'), st.sampled_from(EPRS), mid).map(list)
    probe = st.tuples(st.just('probe'), st.one_of(st.none(), st.lists(st.sampled_from([('urn:t', 'A'), ('urn:t', 'B'), ('urn:x', 'Z')]), max_size=2)),
                      st.one_of(st.none(), st.tuples(st.lists(st.sampled_from(['http://example.org/l1', 'HTTP://EXAMPLE.org/l1/sub', 'http://example.org/zz', 'sdc.ctxt.loc:/r', 'http://example.org/moved1', 'http://example.org/moved2/sub']), max_size=2),
                                                     st.sampled_from([RFC3986, STRCMP, None]))),
                      mid).map(list)
    resolve = st.tuples(st.just('resolve'), st.sampled_from(LOCAL + ['urn:uuid:unknown', EPRS[0]]), mid).map(list)
    filler = st.tuples(st.just('filler'), st.integers(201, 230)).map(list)
    # a local service is published again with other metadata (a provider that was relocated)
    republish = st.tuples(st.just('republish'), st.integers(0, len(LOCAL) - 1), st.integers(0, 2), st.booleans()).map(list)
    # the application's callbacks (hello / bye / probe / probe matches / resolve match): none, well-behaved, or raising
    callbacks = st.tuples(st.just('callbacks'), st.sampled_from(['none', 'ok', 'raise', 'raise'])).map(list)
    # the application empties the table of discovered services (this is no reason to forget message ids)
    clear = st.just(['clear_remote'])
    steps = [ann, ann, ann, bye, probe, probe, resolve, republish, callbacks, clear]
    if long_ids:
        # the memory of 200 ids is full from the start, and may be flushed again later
        return st.tuples(filler, st.lists(st.one_of([*steps, probe, resolve, filler]), min_size=1, max_size=14)).map(
            lambda t: [t[0], *t[1]])
    return st.lists(st.one_of(steps), min_size=1, max_size=14)


def _mk_message(step, seq):
    """Serialised datagram for one history step (built with the library's own factory)."""
    from lxml import etree

    from sdc11073.namespaces import default_ns_helper as nsh
    from sdc11073.wsdiscovery import wsdimpl
    from sdc11073.xml_types import wsd_types
    from sdc11073.xml_types.addressing_types import HeaderInformationBlock
    kind = step[0]
    mid_n = step[-1]
    message_id = f'urn:uuid:00000000-0000-0000-0000-{mid_n:012d}'
    app_seq = True
    if kind in ('hello', 'probematch', 'resolvematch'):
        _, epr, v, with_types, with_scopes, with_xaddrs, _ = step
        types = [etree.QName(*t) for t in f_types(epr, v)] if with_types else None
        scopes = None
        if with_scopes:
            scopes = wsd_types.ScopesType()
            scopes.text.extend(f_scopes(epr, v))
        xaddrs = f_xaddrs(epr, v) if with_xaddrs else []
        if kind == 'hello':
            payload = wsd_types.HelloType()
            target = payload
        elif kind == 'probematch':
            payload = wsd_types.ProbeMatchesType()
            target = wsd_types.ProbeMatchType()
            payload.ProbeMatch.append(target)
        else:
            payload = wsd_types.ResolveMatchesType()
            target = wsd_types.ResolveMatchType()
            payload.ResolveMatch = target
        target.EndpointReference.Address = epr
        target.MetadataVersion = v
        if types is not None:
            target.Types = types
        target.Scopes = scopes
        target.XAddrs = list(xaddrs)
    elif kind == 'bye':
        payload = wsd_types.ByeType()
        payload.EndpointReference.Address = step[1]
    elif kind == 'probe':
        payload = wsd_types.ProbeType()
        if step[1] is not None:
            payload.Types = [etree.QName(*t) for t in step[1]]
        if step[2] is not None:
            payload.Scopes = wsd_types.ScopesType()
            payload.Scopes.text.extend(step[2][0])
            payload.Scopes.MatchBy = step[2][1]
        app_seq = False
    elif kind == 'resolve':
        payload = wsd_types.ResolveType()
        payload.EndpointReference.Address = step[1]
        app_seq = False
    else:
        raise R.HarnessError(kind)
    inf = HeaderInformationBlock(action=payload.action, addr_to='urn:docs-oasis-open-org:ws-dd:ns:discovery:2009:01',
                                 message_id=message_id)
    msg = wsdimpl._mk_wsd_soap_message(inf, payload)  # noqa: SLF001
    if app_seq:
        a = wsd_types.AppSequenceType()
        a.InstanceId = 7
        a.MessageNumber = seq
        msg.p_msg.add_header_element(a.as_etree_node(nsh.WSD.tag('AppSequence'), ns_map=nsh.partial_map(nsh.WSD)))
    return message_id, msg.serialize()


class Model:
    def __init__(self):
        self.remote = {}  # epr -> {'v': version, 'types': bool supplied, 'scopes': bool, 'xaddrs': bool}
        self.known_ids = []

    def remember(self, mid):
        self.known_ids.insert(0, mid)
        del self.known_ids[200:]


def history_case(ctx, hist):  # noqa: C901, PLR0912, PLR0915
    import logging
    logging.disable(logging.CRITICAL)
    from lxml import etree

    from sdc11073.wsdiscovery import wsdimpl
    from sdc11073.xml_types import wsd_types
    wsdimpl.random = H.FixedRandom()
    wsd = wsdimpl.WSDiscovery('127.0.0.1')
    from sdc11073.wsdiscovery import networkingthread as nt_mod
    nt_mod.random = H.FixedRandom()
    nt = H.mk_networking_thread(wsd)
    rec = H.RecordingNetworkingThread(forward=nt)  # outbound messages pass the real bookkeeping (known message ids)
    wsd._networking_thread = rec  # noqa: SLF001
    wsd._server_started = True  # noqa: SLF001
    dispatched = []
    orig = wsd.handle_received_message

    def spy(received_message, addr):
        dispatched.append(received_message.p_msg.header_info_block.MessageID)
        return orig(received_message, addr)
    wsd.handle_received_message = spy
    # two local services
    local = {}
    for i, epr in enumerate(LOCAL):
        sc = wsd_types.ScopesType()
        sc.text.extend([f'http://example.org/l{i + 1}/sub', 'sdc.ctxt.loc:/r/x'])
        types = [etree.QName('urn:t', 'A')] + ([etree.QName('urn:t', 'B')] if i else [])
        wsd.publish_service(epr, types, sc, [f'http://10.0.0.9:80/{i}'])
        local[epr] = ([('urn:t', 'A')] + ([('urn:t', 'B')] if i else []), list(sc.text))
    model = Model()
    for m, *_ in rec.outbound:  # the node remembers the ids of its own messages too
        model.remember(m.p_msg.header_info_block.MessageID)
    del rec.outbound[:]
    out = []
    flags = {'dup': False, 'out_of_order': False, 'answered': False, 'dup-after-200': False, 'republished': False}
    seq = 0
    for si, step in enumerate(hist):
        if step[0] == 'filler':
            # many distinct foreign ids to push older ids out of the 200-entry memory
            datagrams = []
            for k in range(step[1]):
                mid, data = _mk_message(['resolve', 'urn:uuid:unknown', 10_000 + si * 1000 + k], 0)
                datagrams.append((('10.0.0.1', 3702), data))
                model.remember(mid)
            n_out = len(rec.outbound)
            H.run_q_read(nt, datagrams)
            if rec.outbound[n_out:]:
                raise R.HarnessError('filler messages must not be answered: ' + str([(m.p_msg.header_info_block.Action, a) for m, a, *_ in rec.outbound][:3]))
            del dispatched[:]
            continue
        if step[0] == 'clear_remote':
            wsd.clear_remote_services()
            model.remote.clear()
            flags['cleared'] = True
            continue
        if step[0] == 'callbacks':
            mode = step[1]

            def cb(*_a, mode=mode):
                if mode == 'raise':
                    raise RuntimeError('vf: the application callback failed')
            fn = None if mode == 'none' else cb
            wsd.set_remote_service_hello_callback(fn)
            wsd.set_remote_service_bye_callback(fn)
            wsd.set_remote_service_resolve_match_callback(fn)
            wsd.set_on_probe_callback(fn)
            wsd.set_on_probe_matches_callback(fn)
            flags['raising-callbacks'] = flags.get('raising-callbacks', False) or mode == 'raise'
            continue
        if step[0] == 'republish':
            _, idx, variant, with_b = step
            epr = LOCAL[idx]
            sc = wsd_types.ScopesType()
            sc.text.extend([f'http://example.org/moved{variant}/sub' if variant else f'http://example.org/l{idx + 1}/sub',
                            'sdc.ctxt.loc:/r/x'])
            types = [etree.QName('urn:t', 'A')] + ([etree.QName('urn:t', 'B')] if with_b else [])
            n_out = len(rec.outbound)
            wsd.publish_service(epr, types, sc, [f'http://10.0.0.9:80/{idx}/{variant}'])
            local[epr] = ([('urn:t', 'A')] + ([('urn:t', 'B')] if with_b else []), list(sc.text))
            flags['republished'] = True
            hellos = rec.outbound[n_out:]
            for m, *_ in hellos:
                model.remember(m.p_msg.header_info_block.MessageID)
            if len(hellos) != 1:
                out.append((f'{P}/history/republish-hello-count', f'step {si} {step}: {len(hellos)} messages sent'))
                break
            hello = wsd_types.HelloType.from_node(etree.fromstring(hellos[0][0].serialize()).find('.//{%s}Hello' % NS_D))
            got_scopes = list(hello.Scopes.text) if hello.Scopes is not None else []
            got_types = [(q.namespace, q.localname) for q in (hello.Types or [])]
            if got_scopes != list(sc.text) or got_types != local[epr][0]:
                out.append((f'{P}/history/republish-hello-content', f'step {si} {step}: Hello announces types {got_types} '
                                                                    f'scopes {got_scopes}, published {local[epr]}'))
                break
            continue
        seq += 1
        mid, data = _mk_message(step, seq)
        before_out = len(rec.outbound)
        del dispatched[:]
        H.run_q_read(nt, [(('10.0.0.1', 3702), data)])
        is_dup = mid in model.known_ids
        if is_dup:
            flags['dup'] = True
            if len(model.known_ids) >= 200:
                flags['dup-after-200'] = True
            if dispatched:
                out.append((f'{P}/history/duplicate-id-dispatched/{step[0]}',
                            f'step {si} {step}: message id {mid} is among the last 200 recorded ids but was dispatched again'))
                break
            continue
        model.remember(mid)
        for m, *_ in rec.outbound[before_out:]:
            model.remember(m.p_msg.header_info_block.MessageID)
            flags['answered'] = True
        if dispatched != [mid]:
            out.append((f'{P}/history/not-dispatched/{step[0]}', f'step {si} {step}: a new message id was not dispatched '
                                                                 f'(dispatched: {dispatched})'))
            break
        kind = step[0]
        new_out = rec.outbound[before_out:]
        if kind in ('hello', 'probematch', 'resolvematch'):
            _, epr, v, wt, ws, wx, _ = step
            cur = model.remote.get(epr)
            if cur is None or v > cur['v']:
                model.remote[epr] = {'v': v, 'types': wt, 'scopes': ws, 'xaddrs': wx}
            elif v == cur['v']:
                cur['types'] |= wt
                cur['scopes'] |= ws
                cur['xaddrs'] |= wx
            else:
                flags['out_of_order'] = True
        elif kind == 'bye':
            model.remote.pop(step[1], None)
        elif kind == 'probe':
            want = set()
            for epr, (ltypes, lscopes) in local.items():
                ok = all(t in ltypes for t in (step[1] or []))
                if ok and step[2] is not None:
                    rule = STRCMP if step[2][1] == STRCMP else RFC3986
                    ok = all(any(ref_match(u, e, rule) for e in lscopes) for u in step[2][0])
                if ok:
                    want.add(epr)
            got = set()
            for m, addr, _port, _params in new_out:
                pm = wsd_types.ProbeMatchesType.from_node(etree.fromstring(m.serialize()).find('.//{%s}ProbeMatches' % NS_D))
                for match in pm.ProbeMatch:
                    got.add(match.EndpointReference.Address)
                if addr != '10.0.0.1':
                    out.append((f'{P}/history/probe-answer-address', f'ProbeMatches sent to {addr}'))
            if got != want:
                out.append((f'{P}/history/probe-answer/{"extra" if got - want else "missing"}',
                            f'step {si} {step}: answered for {sorted(got)}, matching local services are {sorted(want)}'))
        elif kind == 'resolve':
            got = [m for m, *_ in new_out]
            if (step[1] in local) != (len(got) == 1) or len(got) > 1:
                out.append((f'{P}/history/resolve-answer', f'step {si} {step}: {len(got)} answers, published: {step[1] in local}'))
        # remote table vs model
        table = wsd._remote_services  # noqa: SLF001
        if set(table) != set(model.remote):
            out.append((f'{P}/history/remote-table-keys/{kind}', f'step {si} {step}: table has {sorted(table)}, model '
                                                                 f'{sorted(model.remote)}'))
        else:
            for epr, m in model.remote.items():
                svc = table[epr]
                v = m['v']
                if svc.metadata_version != v:
                    out.append((f'{P}/history/remote-version/{kind}', f'step {si} {step}: {epr} has metadata version '
                                                                      f'{svc.metadata_version}, highest since last Bye is {v}'))
                    break
                got_types = [(q.namespace, q.localname) for q in (svc.types or [])]
                got_scopes = list(svc.scopes.text) if svc.scopes is not None else []
                for name, supplied, got, want in (('types', m['types'], got_types, f_types(epr, v)),
                                                  ('scopes', m['scopes'], got_scopes, f_scopes(epr, v)),
                                                  ('xaddrs', m['xaddrs'], list(svc.x_addrs), f_xaddrs(epr, v))):
                    if supplied and got != want:
                        out.append((f'{P}/history/remote-content/{name}/{kind}',
                                    f'step {si} {step}: {epr} v{v} {name} = {got}, announced {want}'))
                    elif got and got != want:
                        out.append((f'{P}/history/remote-content-stale/{name}/{kind}',
                                    f'step {si} {step}: {epr} v{v} {name} = {got} does not belong to version {v}'))
        if out:
            break
    ctx.case(hist, flags['dup'] or flags['out_of_order'], 'history',
             classes=tuple({s[0] for s in hist}) + tuple(k for k, v in flags.items() if v))
    return out


def shard(ctx, which, n):
    import logging
    logging.disable(logging.CRITICAL)
    if which == 'scope':
        R.hyp_campaign(ctx, which, st_pair(), lambda c: scope_case(ctx, c), n)
    elif which == 'filter':
        R.hyp_campaign(ctx, which, st_filter_case(), lambda c: filter_case(ctx, c), n)
    else:
        R.hyp_campaign(ctx, which, st_history(which == 'history_long'), lambda h: history_case(ctx, h), n)


def run(ctx):
    q = ctx.tier == 'quick'
    jobs = [('scope', 2500 if q else 150000)] * 5 + [('filter', 800 if q else 40000)] * 3 + [
        ('history', 60 if q else 1500)] * 5 + [('history_long', 40 if q else 600)] * 3
    R.run_shards(ctx, __name__, 'shard', jobs)


def _tuplify(x):
    if isinstance(x, list):
        return tuple(_tuplify(i) for i in x)
    return x


def replay(part, case):
    ctx = R.Ctx(P, 'quick', 0, {})
    if part == 'scope':
        (src, target, mode), rule = case
        return scope_case(ctx, ((src, target, mode), rule))
    if part == 'filter':
        svcs, types, scopes = case
        svcs = [([tuple(t) for t in s[0]], s[1]) for s in svcs]
        types = None if types is None else [tuple(t) for t in types]
        scopes = None if scopes is None else (scopes[0], scopes[1])
        return filter_case(ctx, (svcs, types, scopes))
    hist = []
    for s in case:
        s = list(s)
        if s[0] == 'probe':
            s[1] = None if s[1] is None else [tuple(t) for t in s[1]]
            s[2] = None if s[2] is None else (s[2][0], s[2][1])
        hist.append(s)
    return history_case(ctx, hist)
