"""C12 - instances never share mutable state or alter the defaults of later instances.

For every concrete class: generated sequences of construct / parse (optional parts absent or present) / deepcopy /
nested attribute writes / list appends.  Oracle after every step:
  * canon(cls()) equals the value it had at the start of the case (defaults never drift),
  * no mutable object reachable from one independently obtained instance is reachable (by identity) from another
    one or from a class-level default object,
  * a write through one instance leaves the canonical form of every other independent instance unchanged.
The class-level default objects are restored from pristine copies at the top of every case (state reset), so a case
is a pure function of its trace.
"""
from __future__ import annotations

import copy

from hypothesis import strategies as st
from lxml import etree

from vf import canon as C
from vf import run as R
from vf.gen import types as T
from vf.props import c05

P = 'C12'
META = {
    'level': 'exploration',
    'rule': ('every concrete data-type / container class; traces of construct, parse-with-optional-parts-absent, '
             'parse-generated-instance, deepcopy, nested set (value drawn from the member\'s own strategy), list append; '
             'non-trivial = a parse followed by a write at nesting depth >= 2 or a list append; distinct by trace'),
    'assumptions': ['the lxml extension elements that mk_copy() shares between original and copy are exempt from the identity oracle'],
}

_PRISTINE = {}
# members that are documented to get a fresh value in every new instance
FRESH_PER_INSTANCE = {('HeaderInformationBlock', 'MessageID')}


def _all_props():
    out = []
    for cls in T.all_classes().values():
        for name in cls.__dict__.get('_props', ()):
            prop = cls.__dict__.get(name)
            if prop is not None and hasattr(prop, '_default_py_value'):
                out.append((cls, name, prop))
    return out


def reset_defaults():
    """Restore every class-level default object from a pristine deep copy (taken the first time this runs)."""
    if not _PRISTINE:
        for cls, name, prop in _all_props():
            d = prop._default_py_value  # noqa: SLF001
            if d is not None and not isinstance(d, (str, int, float, bool, bytes)) and not hasattr(d, 'name'):
                try:
                    _PRISTINE[(cls, name)] = (prop, copy.deepcopy(d))
                except Exception:  # noqa: BLE001
                    pass
    for prop, d in _PRISTINE.values():
        prop._default_py_value = copy.deepcopy(d)  # noqa: SLF001


def _mutable_ids(obj, acc=None, depth=0):
    """ids of mutable objects reachable through the property tree (containers, lists, lxml elements)."""
    from sdc11073.mdib.containerbase import ContainerBase
    from sdc11073.xml_types.basetypes import XMLTypeBase
    acc = acc if acc is not None else {}
    if depth > 6:
        return acc
    for name, prop in obj.sorted_container_properties():
        v = prop.get_actual_value(obj)
        _walk_value(v, acc, f'{type(obj).__name__}.{name}', depth, (XMLTypeBase, ContainerBase))
    return acc


def _walk_value(v, acc, label, depth, obj_types):
    if v is None or isinstance(v, (str, int, float, bool, bytes, tuple, frozenset)):
        return
    if isinstance(v, obj_types):
        acc[id(v)] = label
        _mutable_ids(v, acc, depth + 1)
    elif isinstance(v, list):
        acc[id(v)] = label
        for item in v:
            _walk_value(item, acc, label + '[]', depth + 1, obj_types)
    elif isinstance(v, etree._Element):  # noqa: SLF001
        acc[id(v)] = label
    # enums, Decimals, QNames, frozen dataclasses: immutable


def _element_ids(obj, acc=None, depth=0):
    """ids of the lxml elements reachable through the property tree."""
    acc = acc if acc is not None else set()
    if depth > 6 or not hasattr(obj, 'sorted_container_properties'):
        return acc
    for _name, prop in obj.sorted_container_properties():
        v = prop.get_actual_value(obj)
        for item in (v if isinstance(v, list) else [v]):
            if isinstance(item, etree._Element):  # noqa: SLF001
                acc.add(id(item))
            elif hasattr(item, 'sorted_container_properties'):
                _element_ids(item, acc, depth + 1)
    return acc


def _default_ids():
    from sdc11073.mdib.containerbase import ContainerBase
    from sdc11073.xml_types.basetypes import XMLTypeBase
    acc = {}
    for cls, name, prop in _all_props():
        _walk_value(prop._default_py_value, acc, f'default of {cls.__name__}.{name}', 0, (XMLTypeBase, ContainerBase))  # noqa: SLF001
    return acc


def _min_spec(cls):
    return {'cls': T.cls_name(cls), 'set': {}}


def _defaulted_optional_children(cls):
    """Element names of members that carry a class-level default object and may be absent per schema."""
    from vf.gen.xsdmodel import model
    m = model()
    tref = T.top_type_ref(cls)
    tinfo = m.type_info(tref) if tref is not None else None
    out = []
    for name, prop in T.new_instance(cls).sorted_container_properties():
        if getattr(prop, '_default_py_value', None) is None or getattr(prop, '_sub_element_name', None) is None:
            continue
        cinfo = tinfo.children.get(prop._sub_element_name.text) if tinfo is not None else None  # noqa: SLF001
        if cinfo is None or cinfo.min_occurs == 0:
            out.append(prop._sub_element_name)  # noqa: SLF001
    return out


def _parse(cls, spec, strip=False):
    x = T.build(spec)
    node, _ = c05.to_xml(x)
    if node is None:
        return None
    doc = etree.fromstring(etree.tostring(node))
    if strip:
        for qn in _defaulted_optional_children(cls):
            for child in doc.findall(qn):
                doc.remove(child)
    return c05.from_xml(cls, doc)


def _resolve(obj, path):
    cur = obj
    for p in path:
        cur = cur[p] if isinstance(p, int) else getattr(cur, p)
    return cur


class Runner:
    def __init__(self, cls):
        reset_defaults()
        self.cls = cls
        self.cname = cls.__name__
        self.instances = []  # (instance, family)
        self.baseline = C.canon(T.new_instance(cls))
        self.findings = []
        self.had_parse = False
        self.had_mk_copy = False
        self.allowed_shared = set()
        self.nontrivial = False

    def add(self, inst, family=None):
        if inst is not None:
            self.instances.append((inst, family if family is not None else len(self.instances)))

    def check(self, op, target=None, before=None):
        now = C.canon(T.new_instance(self.cls))
        d = [x for x in C.diff(self.baseline, now) if (self.cname, x[0].lstrip('.')) not in FRESH_PER_INSTANCE] \
            if now != self.baseline else []
        if d:
            self.findings.append((f'{P}/default-drift/{self.cname}{d[0][0] if d else ""}',
                                  f'after {op}: cls() changed: {[list(map(str, i)) for i in d[:2]]}'))
        seen = _default_ids()
        owners = {k: 'class default' for k in seen}
        fam_seen = {}
        for idx, (inst, fam) in enumerate(self.instances):
            ids = _mutable_ids(inst)
            for oid, label in ids.items():
                if oid in seen and fam_seen.get(oid) != fam and oid not in self.allowed_shared:
                    self.findings.append((f'{P}/shared-object/{label.split("[")[0]}',
                                          f'after {op}: object at {label} of instance {idx} is also reachable from '
                                          f'{owners[oid]} ({seen[oid]})'))
            for oid, label in ids.items():
                if oid not in seen:
                    seen[oid] = label
                    owners[oid] = f'instance {idx}'
                    fam_seen[oid] = fam
        if before is not None:
            tfam = self.instances[target][1]
            for idx, (inst, fam) in enumerate(self.instances):
                if fam == tfam:
                    continue
                c = C.canon(inst)
                if c != before[idx]:
                    d = C.diff(before[idx], c)
                    self.findings.append((f'{P}/write-leaks/{self.cname}{d[0][0] if d else ""}',
                                          f'{op} on instance {target} changed instance {idx}: '
                                          f'{[list(map(str, i)) for i in d[:2]]}'))

    def execute(self, op):  # noqa: C901, PLR0912
        kind = op[0]
        if kind == 'construct':
            self.add(T.new_instance(self.cls))
            self.check('construct')
        elif kind in ('parse_min', 'parse'):
            spec = _min_spec(self.cls) if kind == 'parse_min' else op[1]
            try:
                inst = _parse(self.cls, spec, strip=(kind == 'parse_min'))
            except Exception as ex:  # noqa: BLE001
                if not R.exc_in_library(ex):
                    raise
                return  # unwritable / unreadable values are C05's business
            self.add(inst)
            self.had_parse = True
            self.check(kind)
        elif kind == 'deepcopy':
            if self.instances:
                i = op[1] % len(self.instances)
                try:
                    dup = copy.deepcopy(self.instances[i][0])
                except TypeError:
                    return  # lxml QName members cannot be deep-copied (python limitation, not a sharing question)
                self.add(dup)
                self.check('deepcopy')
        elif kind == 'mk_copy':
            cands = [x for x in self.instances if hasattr(x[0], 'mk_copy')]
            if cands:
                src = cands[op[1] % len(cands)][0]
                dup = src.mk_copy()
                # mk_copy hands the (lxml) extension elements of the original to the copy: the elements are treated as
                # immutable values by the library, everything else must be the copy's own
                self.allowed_shared.update(_element_ids(src))
                self.add(dup)
                self.had_mk_copy = True
                self.check('mk_copy')
        elif kind in ('set', 'append'):
            if not self.instances:
                return
            i = op[1] % len(self.instances)
            inst = self.instances[i][0]
            path, member, vspec = op[2], op[3], op[4]
            try:
                holder = _resolve(inst, path)
            except (AttributeError, IndexError, TypeError):
                return
            props = dict(holder.sorted_container_properties()) if hasattr(holder, 'sorted_container_properties') else {}
            if member not in props:
                return
            before = [C.canon(x) for x, _ in self.instances]
            value = T.spec_to_value(props[member], vspec)
            if kind == 'set':
                setattr(holder, member, value)
            else:
                lst = getattr(holder, member)
                if not isinstance(lst, list) or not isinstance(value, list):
                    return
                lst.extend(value)
            if self.had_parse and (len(path) >= 1 or kind == 'append'):
                self.nontrivial = True
            self.check(f'{kind} {".".join(map(str, path))}.{member}', target=i, before=before)


def holders(inst, max_depth=3):
    """(path, object) for the instance itself and every nested object."""
    out = [((), inst)]
    for path, kind in T.nested_paths(inst, max_depth=max_depth):
        if kind == 'object':
            out.append((tuple(path), _resolve(inst, path)))
        elif kind == 'list':
            try:
                lst = _resolve(inst, path)
            except (AttributeError, IndexError):
                continue
            for k, item in enumerate(lst):
                if hasattr(item, 'sorted_container_properties'):
                    out.append(((*path, k), item))
    return out


def drive(cls, data, max_ops):
    """Interactive generation: draws the next op knowing the current instances; returns the concrete trace."""
    r = Runner(cls)
    trace = []
    n = data.draw(st.integers(2, max_ops))
    for _ in range(n):
        choice = data.draw(st.sampled_from(['construct', 'parse_min', 'parse', 'deepcopy', 'mk_copy', 'set', 'set', 'set',
                                            'append']))
        if choice == 'construct' or choice == 'parse_min':
            op = [choice]
        elif choice == 'parse':
            op = ['parse', data.draw(T.instance_spec(cls))]
        elif choice in ('deepcopy', 'mk_copy'):
            op = [choice, data.draw(st.integers(0, 5))]
        else:
            if not r.instances:
                op = ['parse_min']
            else:
                i = data.draw(st.integers(0, len(r.instances) - 1))
                hs = holders(r.instances[i][0])
                path, holder = hs[data.draw(st.integers(0, len(hs) - 1))]
                cands = []
                for name, prop in holder.sorted_container_properties():
                    strat = T.prop_strategy(type(holder), name, prop, 2)
                    if strat is T.SKIP:
                        continue
                    is_list = isinstance(getattr(holder, name, None), list)
                    if choice == 'append' and not is_list:
                        continue
                    cands.append((name, strat))
                if not cands:
                    op = ['construct']
                else:
                    name, strat = cands[data.draw(st.integers(0, len(cands) - 1))]
                    op = [choice, i, list(path), name, data.draw(strat)]
        trace.append(op)
        r.execute(op)
        if r.findings:
            break
    return trace, r


def replay_trace(cls, trace):
    r = Runner(cls)
    for op in trace:
        r.execute(op)
        if r.findings:
            break
    return r


def shard_classes(ctx, names, per_class):
    for name in names:
        if ctx.out_of_budget():
            break
        cls = T.all_classes()[name]

        def fn(data, cls=cls, name=name):
            trace, r = drive(cls, data, 8)
            case = {'cls': name, 'trace': trace}
            ctx.case(case, r.nontrivial, 'trace', classes=tuple({op[0] for op in trace}))
            fn.last_case = case
            return r.findings

        # hyp_campaign records `case` = the drawn value; with st.data() the concrete trace is what must be saved
        _campaign_with_data(ctx, f'tr:{cls.__name__}', fn, per_class)
        ctx.count('classes_explored')


def _campaign_with_data(ctx, part, fn, n):
    """hyp_campaign variant for interactive draws: the recorded case is the concrete trace."""
    holder = {}

    def wrapped(data):
        found = fn(data)
        holder['case'] = fn.last_case
        return found

    class _CaseProxy:
        """Makes R.hyp_campaign store the concrete trace instead of the (unserialisable) data object."""

    orig_finding = ctx.finding

    def finding(sig, detail, case, part_):
        orig_finding(sig, detail, holder.get('best', {}).get(sig, holder.get('case')), 'trace')

    def wrapped2(data):
        found = wrapped(data)
        for sig, _ in found or ():
            best = holder.setdefault('best', {})
            if sig not in best or len(R.jdump(holder['case'])) < len(R.jdump(best[sig])):
                best[sig] = holder['case']
        return found

    ctx.finding = finding
    try:
        R.hyp_campaign(ctx, part, st.data(), wrapped2, n, shrink_s=15 if ctx.tier == 'quick' else 60, max_rounds=5)
    finally:
        ctx.finding = orig_finding


def run(ctx):
    c05.probe_schema()
    names = sorted(n for n in T.concrete_classes() if n not in c05.EXCLUDED)
    ctx.count('classes_total', len(names))
    per_class = 20 if ctx.tier == 'quick' else 300
    nshards = R.NPROC
    R.run_shards(ctx, __name__, 'shard_classes', [(names[i::nshards], per_class) for i in range(nshards)])


def replay(part, case):
    cls = T.all_classes()[case['cls']]
    return replay_trace(cls, case['trace']).findings
