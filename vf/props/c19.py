"""C19 - with TLS configured no endpoint is advertised or contacted in plaintext.

Part `world`: every combination of provider / consumer TLS settings, shared or own HTTP server, alternative host names
and subscription manager flavour, each followed by a generated history (notifications, operation invocation, renew,
GetStatus, Get requests, unsubscribe, shutdown with SubscriptionEnd) on the loop-back transport, which emulates the TLS
handshake outcome at connect time (TLS client to plaintext port: ssl.SSLError; plaintext client to TLS port: the
connection is reset).  Observed: the constructor arguments of every SOAP client, every connect, every URL in every
message on the wire and in the published discovery data, the context handed to every HTTP server a party creates.

Part `contexts`: mk_ssl_contexts / mk_ssl_contexts_from_folder over all parameter combinations; the resulting contexts
perform real in-memory TLS handshakes (ssl.MemoryBIO) against peers with a CA-signed certificate, an untrusted
certificate and no certificate.
"""
from __future__ import annotations

import itertools
import os
import re
import ssl

from hypothesis import strategies as st

from vf import loopback as L
from vf import run as R
from vf import world as W

P = 'C19'
META = {
    'level': 'exploration',
    'rule': ('world: (provider TLS off/on) x (consumer none/optional/enforced) x (provider server shared/own) x (consumer '
             'server shared/own) x (alternative host names off/on) x (sync/async subscription manager) x a generated '
             'history of 0-8 exchanges; non-trivial = at least one party is TLS-configured and the history exchanged '
             'notifications or operations, or the combination is incompatible and must fail closed; distinct by case. '
             'contexts: all parameter combinations of mk_ssl_contexts(_from_folder) x 9 peer pairings, enumerated'),
    'assumptions': ['the TLS handshake outcome is emulated at connect time of the loop-back clients; the handshakes of the '
                    'contexts part are real (in-memory BIO pairs)',
                    'a shared HTTP server handed in by the application has the scheme that fits the TLS setting of the '
                    'party it is handed to'],
}

FIXTURE = 'mdib_two_mds.xml'
CERTS = os.path.join(os.path.dirname(os.path.dirname(os.path.abspath(__file__))), 'fixtures', 'certs')
URL = re.compile(rb'(https?)://([A-Za-z0-9.\-]+):(\d+)')


# ------------------------------------------------------------------------------------------------- world part
def _dummy_container():
    from sdc11073.certloader import SSLContextContainer
    return SSLContextContainer(client_context=ssl.SSLContext(ssl.PROTOCOL_TLS_CLIENT),
                               server_context=ssl.SSLContext(ssl.PROTOCOL_TLS_SERVER))


def _tagged(base, owner):
    return type(f'{owner.capitalize()}{base.__name__}', (base,), {'owner': owner})


class OwnServer(L.FakeHttpServer):
    """Stand-in for HttpServerThreadBase when a party creates its own server."""

    created = []

    def __init__(self, my_ipaddress, ssl_context, supported_encodings=None, logger=None, chunk_size=0, **_kw):  # noqa: ARG002
        super().__init__(ip=my_ipaddress, scheme='https' if ssl_context is not None else 'http', net=L.NET)
        self.ssl_context = ssl_context
        OwnServer.created.append(self)

    def join(self, *a):
        pass


def st_case():
    step = st.sampled_from(['commit', 'commit', 'invoke', 'renew', 'status', 'get', 'unsubscribe_one', 'restart'])
    return st.fixed_dictionaries({
        'provider_tls': st.booleans(),
        'consumer': st.sampled_from(['none', 'optional', 'enforced', 'enforced']),
        'provider_own_server': st.booleans(),
        'consumer_own_server': st.booleans(),
        'alt_host': st.booleans(),
        'async': st.booleans(),
        'history': st.lists(step, max_size=8),
        'end': st.sampled_from(['consumer-unsubscribes', 'provider-sends-end', 'both']),
        # the hosted services name a wsdl location on another server (same path): None | 'http' | 'https'
        'wsdl_elsewhere': st.sampled_from([None, None, 'http', 'https']),
        # the peer spells the provider's address in wsa:To of its eventing requests with the http scheme
        'to_http': st.booleans(),
    })


def expected_to_connect(case) -> bool:
    if case['provider_tls']:
        return case['consumer'] != 'none'
    return case['consumer'] != 'enforced'


def run_case(case):  # noqa: C901, PLR0912, PLR0915
    from sdc11073.consumer import consumerimpl
    from sdc11073.provider import providerimpl
    from vf.props import c01
    c01.park_role_workers()
    net = L.reset_network()
    W.quiet_logging()
    out = []
    stats = {'exchanges': 0, 'connected': False, 'tls_parties': 0}
    p_container = _dummy_container() if case['provider_tls'] else None
    c_container = _dummy_container() if case['consumer'] != 'none' else None
    attempts = []  # (owner, netloc, tls client?, tls server?)

    def connect_hook(client):
        server = net.find_server(client._netloc)  # noqa: SLF001
        tls_client = client._ssl_context is not None  # noqa: SLF001
        tls_server = server.scheme == 'https'
        attempts.append((getattr(client, 'owner', '?'), client._netloc, tls_client, tls_server))  # noqa: SLF001
        if tls_client and not tls_server:
            raise ssl.SSLError(1, '[SSL: WRONG_VERSION_NUMBER] wrong version number (emulated)')
        if not tls_client and tls_server:
            raise ConnectionResetError('plaintext request to a TLS port (emulated)')
    net.connect_hook = connect_hook
    # no party of this world owns a real socket: whatever connects one has left the soap clients (and their TLS context)
    import socket
    real_connects = []
    saved_socket = (socket.socket.connect, socket.socket.connect_ex, socket.create_connection)

    def refuse(*a, **_kw):
        real_connects.append(a[-1] if a else None)
        raise ConnectionRefusedError('vf: no real connections in this world')

    def refuse_create(address, *_a, **_kw):
        real_connects.append(address)
        raise ConnectionRefusedError('vf: no real connections in this world')
    socket.socket.connect, socket.socket.connect_ex, socket.create_connection = refuse, refuse, refuse_create
    if case.get('wsdl_elsewhere'):
        def elsewhere(entry, response):
            if entry.action and entry.action.endswith('GetMetadata/Request'):
                return re.sub(rb'(<[A-Za-z0-9]*:?Location[^>]*>)https?://[^/<]+', lambda mo: mo.group(1) + (
                    case['wsdl_elsewhere'].encode() + b'://127.0.0.1:9'), response)
            return response
        net.response_rewriter = elsewhere
    if case.get('to_http'):
        def spell_http(entry):
            to_provider = world is not None and entry.netloc.endswith(f':{world.provider_server.server_port}')
            if to_provider and entry.action and '/eventing/' in entry.action and b':To>https://' in (entry.request or b''):
                return ('rewrite', entry.request.replace(b':To>https://', b':To>http://', 1))
            return None
        net.interceptor = spell_http
    saved = (providerimpl.HttpServerThreadBase, consumerimpl.HttpServerThreadBase)
    providerimpl.HttpServerThreadBase = consumerimpl.HttpServerThreadBase = OwnServer
    del OwnServer.created[:]
    base = L.LoopbackSoapClientAsync if case['async'] else L.LoopbackSoapClient
    world = None
    consumer = None
    alt = 'localhost' if case['alt_host'] else None
    try:
        world = W.World(W.fixture(FIXTURE), async_mgr=case['async'], ssl_provider=p_container,
                        own_server=case['provider_own_server'], alternative_hostname=alt,
                        soap_client_class=_tagged(base, 'provider'))
        provider_port = world.provider_server.server_port
        try:
            shared = None
            if not case['consumer_own_server']:
                # a server handed in by the application fits the connection the consumer will end up with
                tls_sink = case['consumer'] == 'enforced' or (case['consumer'] == 'optional' and case['provider_tls'])
                shared = L.FakeHttpServer(scheme='https' if tls_sink else 'http')
            consumer, cmdib = world.add_consumer(init_mdib=True, ssl_consumer=c_container,
                                                 force_ssl_connect=case['consumer'] == 'enforced', shared_server=shared,
                                                 own_server=case['consumer_own_server'], alternative_hostname=alt,
                                                 soap_client_class=_tagged(L.LoopbackSoapClient, 'consumer'))
            stats['connected'] = True
        except Exception as ex:  # noqa: BLE001
            if expected_to_connect(case):
                if not R.exc_in_library(ex) and not isinstance(ex, (ssl.SSLError, OSError)):
                    raise
                out.append((f'{P}/compatible-configuration-does-not-connect/{R.exc_sig(ex)}',
                            f'{_cfg(case)}: {type(ex).__name__}: {ex}'[:300]))
            cmdib = None
            # the application tries again with the same consumer object (stop_all + start_all, then restart):
            # an incompatible peer has to be refused every time
            if not expected_to_connect(case) and world.consumers and case.get('retry', True):
                failed_consumer, _m, failed_server = world.consumers[-1]
                for how in ('stop+start', 'restart'):
                    try:
                        if how == 'stop+start':
                            failed_consumer.stop_all(unsubscribe=False)
                            failed_consumer.start_all(shared_http_server=None if case['consumer_own_server'] else failed_server)
                        else:
                            failed_consumer.restart()
                        out.append((f'{P}/incompatible-configuration-connected/after-{how}',
                                    f'{_cfg(case)}: the second attempt ({how}) of the same consumer object succeeded'))
                        break
                    except Exception as ex2:  # noqa: BLE001
                        if not R.exc_in_library(ex2) and not isinstance(ex2, (ssl.SSLError, OSError)):
                            raise
        if stats['connected'] and not expected_to_connect(case):
            out.append((f'{P}/incompatible-configuration-connected', f'{_cfg(case)}: the consumer is connected'))
        consumer_port = None
        if stats['connected']:
            consumer_port = world.consumers[-1][2].server_port
            stats['exchanges'] += _history(world, consumer, cmdib, case, out)
            if case['end'] in ('consumer-unsubscribes', 'both'):
                consumer.stop_all(unsubscribe=True)
            world.close(send_subscription_end=case['end'] in ('provider-sends-end', 'both'))
        else:
            for c, _m, _s in world.consumers:
                consumer_port = getattr(getattr(c, '_http_server', None), 'server_port', None)
        # ----------------------------------------------------------------------------------------- oracles
        provider_is_tls = case['provider_tls']
        consumer_is_tls = case['consumer'] == 'enforced'
        stats['tls_parties'] = int(provider_is_tls) + int(consumer_is_tls)
        tls_owner = {'provider': p_container if provider_is_tls else None,
                     'consumer': c_container if consumer_is_tls else None}
        for rec in net.clients:
            owner = getattr(rec['obj'], 'owner', None)
            cont = tls_owner.get(owner)
            if cont is not None and rec['ssl_context'] is not cont.client_context:
                out.append((f'{P}/client-without-tls-context/{owner}',
                            f'{_cfg(case)}: {owner} created {rec["cls"]} for {rec["netloc"]} with ssl_context='
                            f'{"None" if rec["ssl_context"] is None else "a foreign context"}'))
        for owner, netloc, tls_client, _tls_server in attempts:
            if tls_owner.get(owner) is not None and not tls_client:
                out.append((f'{P}/plaintext-connect/{owner}', f'{_cfg(case)}: {owner} opened a plaintext connection to {netloc}'))
        for e in net.log:
            owner = None
            for rec in net.clients:
                if rec['netloc'] == e.netloc and getattr(rec['obj'], 'owner', None) is not None:
                    owner = rec['obj'].owner if e.netloc.endswith(f':{provider_port}') is False else 'consumer'
            if e.scheme == 'http' and e.status is not None:
                sender = 'consumer' if e.netloc.endswith(f':{provider_port}') else 'provider'
                if tls_owner.get(sender) is not None:
                    out.append((f'{P}/plaintext-exchange/{sender}', f'{_cfg(case)}: {sender} exchanged '
                                                                    f'{(e.action or "").split("/")[-1]} in plaintext'))
            _ = owner
        # advertised addresses
        tls_ports = {}
        if provider_is_tls:
            tls_ports[str(provider_port)] = 'provider'
        if consumer_is_tls and consumer_port is not None:
            tls_ports[str(consumer_port)] = 'consumer'
        # (a request the harness re-spelled - wsa:To with the http scheme - is the peer's text, not the library's)
        blobs = [(f'{e.kind} {(e.action or "").split("/")[-1]} request', e.request) for e in net.log
                 if not (isinstance(e.error, tuple) and e.error and e.error[0] == 'rewrite')]
        blobs += [(f'response to {(e.action or "").split("/")[-1]}', e.response) for e in net.log if e.response]
        for _epr, _types, _scopes, x_addrs in world.wsd.published:
            blobs.append(('published XAddrs', ' '.join(x_addrs).encode()))
        for where, blob in blobs:
            for scheme, _host, port in URL.findall(blob or b''):
                who = tls_ports.get(port.decode())
                if who is not None and scheme != b'https':
                    out.append((f'{P}/plaintext-address-advertised/{who}/{where.split(" ")[-1] if "response" in where or "request" in where else "discovery"}',
                                f'{_cfg(case)}: {where} carries an http address of the TLS-configured {who}'))
        for srv in OwnServer.created:
            who = 'provider' if srv.server_port == provider_port else 'consumer'
            cont = p_container if who == 'provider' else (c_container if stats['connected'] or consumer_is_tls else None)
            must = tls_owner.get(who)
            if must is not None and srv.ssl_context is not must.server_context:
                out.append((f'{P}/own-server-without-tls-context/{who}', f'{_cfg(case)}: the {who} started its HTTP server '
                                                                        f'with ssl_context={srv.ssl_context}'))
            _ = cont
        if real_connects and (provider_is_tls or consumer_is_tls):
            out.append((f'{P}/connection-outside-the-soap-clients',
                        f'{_cfg(case)} wsdl_elsewhere={case.get("wsdl_elsewhere")}: a real socket was connected to '
                        f'{real_connects[:2]} - not through a soap client with the TLS client context'))
    finally:
        providerimpl.HttpServerThreadBase, consumerimpl.HttpServerThreadBase = saved
        socket.socket.connect, socket.socket.connect_ex, socket.create_connection = saved_socket
        net.connect_hook = None
        net.response_rewriter = None
        net.interceptor = None
        if world is not None:
            world.close()
    # de-duplicate
    seen, uniq = set(), []
    for sig, d in out:
        if sig not in seen:
            seen.add(sig)
            uniq.append((sig, d))
    return uniq, stats


def _cfg(case) -> str:
    return (f'provider_tls={case["provider_tls"]} consumer={case["consumer"]} own_servers='
            f'{case["provider_own_server"]}/{case["consumer_own_server"]} alt_host={case["alt_host"]} async={case["async"]}')


def _history(world, consumer, cmdib, case, out) -> int:
    from vf.gen import mdibprog as MP
    inv = MP.inventory(FIXTURE)
    n = 0
    h, cname = inv.states['metric'][0]
    for i, step in enumerate(case['history']):
        try:
            if step == 'commit':
                with world.mdib.metric_state_transaction() as mgr:
                    s = mgr.get_state(h)
                    s.ActivationState = world.mdib.data_model.pm_types.ComponentActivation.OFF if i % 2 else \
                        world.mdib.data_model.pm_types.ComponentActivation.ON
                n += 1
            elif step == 'invoke':
                ops = [d for d in cmdib.descriptions.objects if type(d).__name__ == 'SetStringOperationDescriptorContainer']
                if ops:
                    fut = consumer.client('Set').set_string(ops[0].Handle, f'v{i}')
                    world.run_sco() if getattr(world, '_inline', False) else None
                    try:
                        fut.result(timeout=3)
                    except Exception:  # noqa: BLE001, S110  (the outcome of the operation is not the subject here)
                        pass
                    n += 1
            elif step == 'renew':
                for sub in list(consumer.subscription_mgr.subscriptions.values()):
                    sub.renew(60)
            elif step == 'status':
                for sub in list(consumer.subscription_mgr.subscriptions.values()):
                    sub.get_status()
            elif step == 'get':
                consumer.client('Get').get_md_state([h])
            elif step == 'restart':
                if case['consumer_own_server']:  # (restart() with a shared server fails on re-registering its path)
                    consumer.restart()
                    n += 1
            elif step == 'unsubscribe_one':
                subs = list(consumer.subscription_mgr.subscriptions.values())
                if subs:
                    subs[0].unsubscribe()
        except Exception as ex:  # noqa: BLE001
            if not R.exc_in_library(ex) and not isinstance(ex, (ssl.SSLError, OSError)):
                raise
            out.append((f'{P}/exchange-fails/{step}/{R.exc_sig(ex)}', f'{_cfg(case)} step {i} {step}: {type(ex).__name__}: {ex}'[:300]))
            break
    return n


def world_case(ctx, case):
    findings, stats = run_case(case)
    nontrivial = (stats['tls_parties'] > 0 and stats['exchanges'] > 0) or (not expected_to_connect(case))
    ctx.case(case, nontrivial, 'world', classes=(
        f'provider_tls={case["provider_tls"]}', f'consumer={case["consumer"]}',
        'connected' if stats['connected'] else 'refused', f'tls-parties={stats["tls_parties"]}'))
    return findings


def shard_world(ctx, n):
    R.hyp_campaign(ctx, 'world', st_case(), lambda c: world_case(ctx, c), n, shrink_s=30 if ctx.tier == 'quick' else 120)


# ------------------------------------------------------------------------------------------------- contexts part
def _handshake(client_ctx, server_ctx):
    """Real TLS handshake between two contexts over memory BIOs -> (ok, client sees peer cert, server sees peer cert, error)."""
    c_in, c_out, s_in, s_out = ssl.MemoryBIO(), ssl.MemoryBIO(), ssl.MemoryBIO(), ssl.MemoryBIO()
    c = client_ctx.wrap_bio(c_in, c_out, server_side=False, server_hostname=None)
    s = server_ctx.wrap_bio(s_in, s_out, server_side=True)
    done_c = done_s = False
    err = None
    for _ in range(40):
        for side in ('c', 's'):
            obj = c if side == 'c' else s
            try:
                if side == 'c' and not done_c:
                    obj.do_handshake()
                    done_c = True
                elif side == 's' and not done_s:
                    obj.do_handshake()
                    done_s = True
            except (ssl.SSLWantReadError, ssl.SSLWantWriteError):
                pass
            except ssl.SSLError as ex:
                err = ex
            data = c_out.read()
            if data:
                s_in.write(data)
            data = s_out.read()
            if data:
                c_in.write(data)
        if err is not None or (done_c and done_s):
            break
    if err is None and done_c and done_s:
        # TLS 1.3: the server validates the client certificate after the client's handshake returned; exchange data
        try:
            c.write(b'ping')
            s_in.write(c_out.read())
            try:
                s.read(4)
            except ssl.SSLWantReadError:
                pass
            s.write(b'pong')
            c_in.write(s_out.read())
            try:
                c.read(4)
            except ssl.SSLWantReadError:
                pass
        except ssl.SSLError as ex:
            err = ex
    ok = err is None and done_c and done_s
    return ok, (c.getpeercert(binary_form=True) is not None) if ok else False, (
        s.getpeercert(binary_form=True) is not None) if ok else False, err


def _peer(kind, role, ca):
    """A peer context of the given kind ('signed' | 'untrusted' | 'nocert') that itself trusts the CA."""
    ctx_ = ssl.SSLContext(ssl.PROTOCOL_TLS_CLIENT if role == 'client' else ssl.PROTOCOL_TLS_SERVER)
    if role == 'client':
        ctx_.check_hostname = False
    ctx_.verify_mode = ssl.CERT_NONE  # the peer's own policy is not under test
    if kind == 'signed':
        ctx_.load_cert_chain(os.path.join(CERTS, 'user_cert.pem'), os.path.join(CERTS, 'user_key.pem'))
    elif kind == 'untrusted':
        ctx_.load_cert_chain(os.path.join(CERTS, 'other_cert.pem'), os.path.join(CERTS, 'other_key.pem'))
    _ = ca
    return ctx_


def contexts_part(ctx):  # noqa: C901, PLR0912
    import pathlib

    from sdc11073 import certloader
    folder = pathlib.Path(CERTS)
    n = 0
    for via_folder, encrypted, passwd_kind, with_ca, cyphers in itertools.product(
            (False, True), (False, True), ('str', 'bytes', 'callable'), (True, False), (None, 'ECDHE+AESGCM:!aNULL')):
        key = 'user_key_enc.pem' if encrypted else 'user_key.pem'
        passwd = {'str': 'secret', 'bytes': b'secret', 'callable': (lambda: 'secret')}[passwd_kind] if encrypted else None
        case = {'via_folder': via_folder, 'encrypted': encrypted, 'passwd': passwd_kind, 'ca': with_ca, 'cyphers': cyphers}
        cyphers_file = None
        try:
            if via_folder:
                if cyphers:
                    cyphers_file = 'cyphers.txt'
                cont = certloader.mk_ssl_contexts_from_folder(folder, private_key=key, certificate='user_cert.pem',
                                                              ca_public_key='ca_cert.pem' if with_ca else None,
                                                              cyphers_file=cyphers_file, ssl_passwd=passwd)
            else:
                cont = certloader.mk_ssl_contexts(folder / key, folder / 'user_cert.pem',
                                                  folder / 'ca_cert.pem' if with_ca else None, cyphers, passwd)
        except Exception as ex:  # noqa: BLE001
            if not R.exc_in_library(ex) and not isinstance(ex, (ssl.SSLError, OSError)):
                raise
            ctx.finding(f'{P}/contexts/mk_ssl_contexts-raises/{R.exc_sig(ex)}', f'{case}: {type(ex).__name__}: {ex}', case,
                        'contexts')
            continue
        n += 1
        if cont.client_context is cont.server_context:
            ctx.finding(f'{P}/contexts/one-context-for-both-roles', str(case), case, 'contexts')
        if with_ca:
            for role, c in (('client', cont.client_context), ('server', cont.server_context)):
                if c.verify_mode != ssl.CERT_REQUIRED:
                    ctx.finding(f'{P}/contexts/verify-mode-not-required/{role}', f'{case}: verify_mode={c.verify_mode!r}',
                                case, 'contexts')
                if not c.get_ca_certs():
                    ctx.finding(f'{P}/contexts/ca-not-loaded/{role}', str(case), case, 'contexts')
            # real handshakes: our client context against server peers, peers' client contexts against our server context
            for kind in ('signed', 'untrusted', 'nocert'):
                if kind != 'nocert':  # (a TLS server always has a certificate)
                    ok, sees, _x, err = _handshake(cont.client_context, _peer(kind, 'server', folder))
                    want = kind == 'signed'
                    ctx.bulk(1, 1, 'contexts')
                    if ok != want or (ok and not sees):
                        ctx.finding(f'{P}/contexts/client-context-{"accepts" if ok else "rejects"}-{kind}-server',
                                    f'{case}: handshake ok={ok} peer certificate seen={sees} error={err}', case, 'contexts')
                ok, _x, sees, err = _handshake(_peer(kind, 'client', folder), cont.server_context)
                want = kind == 'signed'
                ctx.bulk(1, 1, 'contexts')
                if ok != want or (ok and not sees):
                    ctx.finding(f'{P}/contexts/server-context-{"accepts" if ok else "rejects"}-{kind}-client',
                                f'{case}: handshake ok={ok} peer certificate seen={sees} error={err}', case, 'contexts')
            # and the two contexts of the container with each other
            ok, sees_s, sees_c, err = _handshake(cont.client_context, cont.server_context)
            ctx.bulk(1, 1, 'contexts')
            if not ok or not sees_s or not sees_c:
                ctx.finding(f'{P}/contexts/own-contexts-do-not-verify-each-other',
                            f'{case}: ok={ok} client sees cert={sees_s} server sees cert={sees_c} error={err}', case, 'contexts')
    ctx.count('contexts/containers-built', n)
    ctx.exhaustive_parts.append('contexts: 48 parameter combinations of mk_ssl_contexts(_from_folder) x 6 handshakes')


# --------------------------------------------------------- part client: the real soap client after connection faults
def st_client_case():
    fault = st.sampled_from([None, None, 'reset-on-response', 'disconnected-on-response', 'broken-pipe-on-send',
                             'timeout-on-response'])
    return st.lists(fault, min_size=2, max_size=5)


def client_case(ctx, faults):
    """The library's synchronous SoapClient, configured with a TLS context, talks to an in-memory server through
    connections that can only come from its own _mk_http_connection (the place where the TLS context is applied).  Some
    requests meet a connection fault.  Whatever the client does then (give up, reconnect), it never opens a connection
    by other means: real socket connects are intercepted."""
    import http.client
    import logging
    import socket

    from vf import memhttp as M
    from vf.props import c17
    logging.disable(logging.CRITICAL)
    server = M.MemServer()
    echo = c17.Echo()
    echo.response = b'<ok/>'
    server.dispatcher.register_instance('p', echo)
    plan = list(faults)
    state = {'i': 0, 'made': 0}

    class Sock(M._ClientSock):  # noqa: SLF001
        def sendall(self, data):
            if state.get('now') == 'broken-pipe-on-send':
                state['now'] = None
                raise BrokenPipeError(32, 'Broken pipe (injected)')
            super().sendall(data)

        def makefile(self, mode='rb', bufsize=-1):
            now, state['now'] = state.get('now'), None
            if now == 'reset-on-response':
                raise ConnectionResetError(104, 'Connection reset by peer (injected)')
            if now == 'disconnected-on-response':
                raise http.client.RemoteDisconnected('Remote end closed connection without response (injected)')
            if now == 'timeout-on-response':
                raise TimeoutError('timed out (injected)')
            return super().makefile(mode, bufsize)

    class Conn(M.MemHTTPConnection):
        def connect(self):
            self.sock = Sock(self._mem_server, self._tap)

    class Client(M.MemSoapClient):
        def _mk_http_connection(self):
            state['made'] += 1
            return Conn(self.mem_server, self.tap)

    real = []
    saved = (socket.socket.connect, socket.socket.connect_ex, socket.create_connection)

    def refuse(*a, **_kw):
        real.append(a[-1] if a else None)
        raise ConnectionRefusedError('vf: no real connections here')
    socket.socket.connect = socket.socket.connect_ex = refuse
    socket.create_connection = lambda address, *_a, **_k: refuse(address)
    out = []
    answered = 0
    try:
        client = Client(server, c17.FakeReader())
        client._ssl_context = object()  # noqa: SLF001  (configured with TLS; applied in _mk_http_connection only)
        for i, fault in enumerate(plan):
            state['now'] = fault
            try:
                client.post_message_to('/p/x', c17.FakeMsg(b'<r>%d</r>' % i))
                answered += 1
            except Exception as ex:  # noqa: BLE001
                if not R.exc_in_library(ex) and not isinstance(ex, (OSError, http.client.HTTPException)):
                    raise
            if real:
                out.append((f'{P}/client/connection-outside-mk_http_connection',
                            f'faults {plan}: after {fault!r} at request {i} the client connected a socket to {real[:2]} '
                            f'without _mk_http_connection (where its TLS context is applied)'))
                break
    finally:
        socket.socket.connect, socket.socket.connect_ex, socket.create_connection = saved
    ctx.case(faults, any(f is not None for f in faults), 'client', classes=tuple(sorted({str(f) for f in faults})) + (
        f'answered={min(answered, 3)}',))
    return out


def shard_client(ctx, n):
    R.hyp_campaign(ctx, 'client', st_client_case(), lambda c: client_case(ctx, c), n)


def shard(ctx, which, *args):
    if which == 'world':
        shard_world(ctx, *args)
    elif which == 'client':
        shard_client(ctx, *args)
    else:
        contexts_part(ctx)


def run(ctx):
    quick = ctx.tier == 'quick'
    jobs = [('world', 20 if quick else 400)] * (R.NPROC - 2) + [('client', 150 if quick else 4000), ('contexts',)]
    R.run_shards(ctx, __name__, 'shard', jobs)


def replay(part, case):
    ctx = R.Ctx(P, 'quick', 0, {})
    if part == 'contexts':
        contexts_part(ctx)
        return [(f['signature'], f['detail']) for f in ctx.findings.values()]
    if part == 'client':
        return client_case(ctx, case)
    return world_case(ctx, case)
