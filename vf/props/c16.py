"""C16 - location scopes round-trip; location filtering tolerates foreign scopes."""
from __future__ import annotations

import itertools
import warnings

from hypothesis import strategies as st

from vf import run as R
from vf import world as W
from vf.gen import xmlvalues as xv

P = 'C16'
META = {
    'level': 'exploration',
    'rule': ('SdcLocation with every present/absent combination of the six elements, values = XML-legal unicode of '
             'length >= 1 incl. reserved URL characters and non-BMP; foreign scopes: any scheme, 0-6 path segments, '
             'malformed queries, sdc.ctxt.loc with the wrong shape, bracketed hosts, other context scopes; non-trivial = a '
             'value contains a reserved or non-ASCII character, or a foreign scope has the sdc.ctxt.loc scheme but a '
             'different shape; distinct by case'),
    'assumptions': ["'' is documented as 'absent' and is not generated as a value"],
}

ELEMENTS = ('fac', 'bldng', 'flr', 'poc', 'rm', 'bed')
RESERVED = set('/?#&=+%; :@[]')


def st_value():
    return st.one_of(xv.xml_text(1, 8), st.sampled_from(['a', 'B1', 'a/b', 'x?y', 'k=v&z', '100%', '%2F', 'ä', '中 文',
                                                         '\U0001F600', '#', '+', ';', ' ', 'a b', '[::1]', '..', '%']))


def st_location_dict(min_set=1):
    return st.fixed_dictionaries({e: st.one_of(st.none(), st_value()) for e in ELEMENTS}).filter(
        lambda d: sum(v is not None for v in d.values()) >= min_set)


def _loc(d):
    from sdc11073.location import SdcLocation
    return SdcLocation(**d)


def _nontrivial_values(d):
    return any(v is not None and (set(v) & RESERVED or not v.isascii()) for v in d.values())


def roundtrip(ctx, d):
    from sdc11073.location import SdcLocation
    out = []
    loc = _loc(d)
    with warnings.catch_warnings():
        warnings.simplefilter('ignore')
        s = loc.scope_string
        try:
            back = SdcLocation.from_scope_string(s)
        except Exception as ex:  # noqa: BLE001
            if not R.exc_in_library(ex):
                raise
            ctx.case(d, _nontrivial_values(d), 'roundtrip')
            return [(f'{P}/roundtrip-raises/{R.exc_sig(ex)}', f'{d} -> {s!r} -> {type(ex).__name__}: {ex}')]
        for e in ELEMENTS:
            if getattr(back, e) != d[e]:
                out.append((f'{P}/roundtrip-changes/{e}', f'{d} -> {s!r} -> {e}={getattr(back, e)!r}'))
                break
        if not out and back != loc:
            out.append((f'{P}/roundtrip-not-equal', f'{d} -> {s!r} -> {back}'))
        if not out:
            # what was parsed belongs to the caller: changing it does not change what the same string parses to next time
            for e in ELEMENTS:
                setattr(back, e, 'vf-changed' if getattr(back, e) is None else None)
            again = SdcLocation.from_scope_string(s)
            for e in ELEMENTS:
                if getattr(again, e) != d[e]:
                    out.append((f'{P}/roundtrip-second-parse-differs/{e}',
                                f'{s!r} parsed, the result modified, parsed again: {e}={getattr(again, e)!r}, location is {d}'))
                    break
    ctx.case(d, _nontrivial_values(d), 'roundtrip', classes=(f'set{sum(v is not None for v in d.values())}',))
    return out


_MDIB_XML = None


def published_scope(d, history=()):
    """The location scope a provider MDIB publishes after set_location(d).  history: earlier locations of the device and
    how the final one is applied - [[location, 'new' | 'in_place'], ...]: 'new' = set_location (a new associated state),
    'in_place' = the associated state is updated inside a context state transaction with update_from_sdc_location,
    'reassoc' = d was the first location, the others followed, then d's (disassociated) state is associated again."""
    import sdc11073.definitions_sdc  # noqa: F401
    from sdc11073.mdib import ProviderMdib
    from sdc11073.provider.scopesfactory import mk_scopes
    global _MDIB_XML  # noqa: PLW0603
    if _MDIB_XML is None:
        _MDIB_XML = W.fixture('mdib_two_mds.xml')
    mdib = ProviderMdib.from_string(_MDIB_XML)
    loc_descr = sorted(x.Handle for x in mdib.descriptions.objects if type(x).__name__ == 'LocationContextDescriptorContainer')
    final_mode = history[-1][1] if history else 'new'
    if final_mode == 'reassoc':
        # d is the first location of the device; after the others, the state that d created is associated again
        steps = [[d, 'new']] + [[h[0], 'new'] for h in history]
    else:
        steps = [[h[0], 'new'] for h in history] + [[d, final_mode]]
    first_state = None
    for i, (loc, mode) in enumerate(steps):
        assoc = [x for x in mdib.context_states.descriptor_handle.get(loc_descr[0], [])
                 if x.ContextAssociation == mdib.data_model.pm_types.ContextAssociation.ASSOCIATED]
        if mode == 'in_place' and i > 0 and len(assoc) == 1:
            with mdib.context_state_transaction() as mgr:
                mgr.get_context_state(assoc[0].Handle).update_from_sdc_location(_loc(loc))
        else:
            mdib.xtra.set_location(_loc(loc), location_context_descriptor_handle=loc_descr[0])
        if i == 0:
            first_state = [x.Handle for x in mdib.context_states.descriptor_handle.get(loc_descr[0], [])
                           if x.ContextAssociation == mdib.data_model.pm_types.ContextAssociation.ASSOCIATED][0]
    if final_mode == 'reassoc' and history:
        pm = mdib.data_model.pm_types
        with mdib.context_state_transaction() as mgr:
            for x in list(mdib.context_states.descriptor_handle.get(loc_descr[0], [])):
                if x.ContextAssociation == pm.ContextAssociation.ASSOCIATED and x.Handle != first_state:
                    cur = mgr.get_context_state(x.Handle)
                    cur.ContextAssociation = pm.ContextAssociation.DISASSOCIATED
                    cur.UnbindingMdibVersion = mdib.mdib_version + 1
            old = mgr.get_context_state(first_state)
            old.ContextAssociation = pm.ContextAssociation.ASSOCIATED
            old.BindingMdibVersion = mdib.mdib_version + 1
    scopes = mk_scopes(mdib)
    return [s for s in scopes.text if s.lower().startswith('sdc.ctxt.loc:')], scopes


def containment(ctx, case):
    """published scope is inside loc and every generalisation, inside no location differing in a specified element."""
    from sdc11073.wsdiscovery.service import Service
    d, other_value = case[0], case[1]
    history = case[2] if len(case) > 2 else ()  # noqa: PLR2004
    out = []
    W.quiet_logging()
    try:
        loc_scopes, all_scopes = published_scope(d, history)
    except Exception as ex:  # noqa: BLE001
        if not R.exc_in_library(ex):
            raise
        ctx.case(case, _nontrivial_values(d), 'containment')
        return [(f'{P}/publish-raises/{R.exc_sig(ex)}', f'{d}: {type(ex).__name__}: {ex}')]
    if len(loc_scopes) != 1:
        ctx.case(case, _nontrivial_values(d), 'containment')
        return [(f'{P}/published-scope-count', f'{d}: {len(loc_scopes)} location scopes published: {loc_scopes}')]
    service = Service(types=None, scopes=all_scopes, x_addrs=['http://x'], epr='urn:x', instance_id='1')
    set_elems = [e for e in ELEMENTS if d[e] is not None]
    with warnings.catch_warnings():
        warnings.simplefilter('ignore')
        # every generalisation (any subset of the set elements kept)
        for r in range(len(set_elems) + 1):
            for keep in itertools.combinations(set_elems, r):
                general = {e: (d[e] if e in keep else None) for e in ELEMENTS}
                try:
                    inside = _loc(general).filter_services_inside([service])
                except Exception as ex:  # noqa: BLE001
                    if not R.exc_in_library(ex):
                        raise
                    out.append((f'{P}/filter-raises/own-scope/{R.exc_sig(ex)}', f'{d}: {type(ex).__name__}: {ex}'))
                    break
                if not inside:
                    out.append((f'{P}/own-scope-not-inside/{"same" if r == len(set_elems) else "general"}',
                                f'location {d} publishes {loc_scopes[0]!r}, not recognised inside {general}'))
                    break
            if out:
                break
        # differing in one specified element
        if not out:
            for e in ELEMENTS:
                if d[e] is not None and other_value == d[e]:
                    continue
                differing = dict(d)
                differing[e] = other_value
                try:
                    inside = _loc(differing).filter_services_inside([service])
                except Exception as ex:  # noqa: BLE001
                    if not R.exc_in_library(ex):
                        raise
                    out.append((f'{P}/filter-raises/own-scope/{R.exc_sig(ex)}', f'{d}: {type(ex).__name__}: {ex}'))
                    break
                if inside:
                    out.append((f'{P}/inside-differing-location/{e}',
                                f'location {d} publishes {loc_scopes[0]!r}, recognised inside {differing} which differs in {e}'))
                    break
    ctx.case(case, _nontrivial_values(d), 'containment', classes=(f'set{len(set_elems)}',) + (
        (f'after-{len(history)}-earlier-locations/{history[-1][1]}',) if history else ()))
    return out


def st_foreign_scope():
    seg = st.one_of(xv.ncname(5), st.sampled_from(['', 'a%2Fb', '..', 'sdc.ctxt.loc.detail', '%', 'x y']))
    query = st.one_of(st.just(''), st.sampled_from(['?fac=a', '?fac', '?=', '?&&', '?fac=a&fac=b', '?x=%', '?bed=%2F',
                                                    '?fac=a;poc=b', '#frag', '?fac=a#f']))
    generic = st.builds(lambda sch, host, segs, q: f'{sch}:' + (f'//{host}' if host is not None else '') + ''.join(
        '/' + s for s in segs) + q,
        st.sampled_from(['sdc.ctxt.loc', 'SDC.CTXT.LOC', 'sdc.ctxt.opr', 'sdc.ctxt.ens', 'sdc.mds.pkp', 'sdc.cdc.type',
                         'http', 'https', 'urn', 'x']),
        st.one_of(st.none(), st.sampled_from(['example.org', '[::1]', '[::1', 'h:99999', 'u@h', ''])),
        st.lists(seg, max_size=6), query)
    fixed = st.sampled_from(['sdc.ctxt.loc:/x', 'sdc.ctxt.loc:', 'sdc.ctxt.loc:/', 'sdc.ctxt.loc:/a/b/c?fac=a',
                             'sdc.ctxt.loc:a/b', 'sdc.ctxt.loc:/a/b/c/d', 'http://[::1', 'sdc.mds.pkp:1.2.840.10004.20701.1.1',
                             'sdc.cdc.type:///130535', '', ' ', '::', 'http://', 'sdc.ctxt.loc://h/a/b', '\U0001F600',
                             'sdc.ctxt.loc:/sdc.ctxt.loc.detail/%2F%2F%2F%2F%2F', 'sdc.ctxt.loc:/r/x?fac=%ZZ'])
    return st.one_of(generic, fixed)


def st_filter_case():
    svc = st.tuples(st.lists(st_foreign_scope(), max_size=4), st.one_of(st.none(), st_location_dict()), st.booleans())
    return st.tuples(st_location_dict(min_set=0), st.lists(svc, min_size=1, max_size=4))


def _ref_inside(own: dict, other: dict) -> bool:
    return all(own[e] is None or own[e] == other[e] for e in ELEMENTS)


def filtering(ctx, case):
    from sdc11073.location import SdcLocation
    from sdc11073.wsdiscovery.service import Service
    from sdc11073.xml_types.wsd_types import ScopesType
    own, svcs = case
    services = []
    expected_min, only_foreign_schemes = set(), set()
    weird = False
    with warnings.catch_warnings():
        warnings.simplefilter('ignore')
        for i, (junk, locd, no_scopes) in enumerate(svcs):
            scopes = ScopesType()
            scopes.text.extend(junk)
            if locd is not None:
                scopes.text.append(_loc(locd).scope_string)
                if _ref_inside(own, locd):
                    expected_min.add(i)
            if all(not j.lower().startswith('sdc.ctxt.loc:') for j in junk):
                only_foreign_schemes.add(i)
            else:
                weird = True
            services.append(Service(types=None, scopes=None if no_scopes and locd is None and not junk else scopes,
                                    x_addrs=[], epr=f'urn:{i}', instance_id='1'))
        out = []
        try:
            got = SdcLocation(**own).filter_services_inside(services)
        except Exception as ex:  # noqa: BLE001
            if not R.exc_in_library(ex):
                raise
            ctx.case(case, True, 'filtering', classes=('raised',))
            return [(f'{P}/filter-raises/{R.exc_sig(ex)}',
                     f'filter_services_inside raised {type(ex).__name__}: {ex} for scopes '
                     f'{[list(s[0]) for s in svcs][:3]}')]
    got_idx = {int(s.epr.split(':')[1]) for s in got}
    missing = expected_min - got_idx
    if missing:
        i = sorted(missing)[0]
        out.append((f'{P}/filter-misses-service', f'own={own}: service with location {svcs[i][1]} (scopes {svcs[i][0]}) '
                                                   f'is inside but was not returned'))
    extra = {i for i in got_idx - expected_min if i in only_foreign_schemes}
    if extra:
        i = sorted(extra)[0]
        out.append((f'{P}/filter-returns-outsider', f'own={own}: service {i} with scopes {svcs[i][0]} / location {svcs[i][1]} '
                                                     f'was returned'))
    ctx.case(case, weird or _nontrivial_values(own), 'filtering')
    return out


def shard(ctx, which, n):
    W.quiet_logging()
    if which == 'roundtrip':
        R.hyp_campaign(ctx, which, st_location_dict(min_set=0), lambda d: roundtrip(ctx, d), n)
    elif which == 'containment':
        earlier = st.lists(st.tuples(st_location_dict(), st.sampled_from(['new', 'in_place', 'in_place', 'reassoc'])).map(list), max_size=2)
        R.hyp_campaign(ctx, which, st.tuples(st_location_dict(), st_value(), earlier).map(list), lambda c: containment(ctx, c), n)
    else:
        R.hyp_campaign(ctx, which, st_filter_case(), lambda c: filtering(ctx, c), n)


def run(ctx):
    q = ctx.tier == 'quick'
    jobs = [('roundtrip', 1500 if q else 60000)] * 4 + [('containment', 60 if q else 3000)] * 6 + [
        ('filtering', 800 if q else 40000)] * 6
    R.run_shards(ctx, __name__, 'shard', jobs)


def replay(part, case):
    ctx = R.Ctx(P, 'quick', 0, {})
    if part == 'roundtrip':
        return roundtrip(ctx, case)
    if part == 'containment':
        return containment(ctx, list(case))
    own, svcs = case
    return filtering(ctx, (own, [tuple(s) for s in svcs]))
