"""C06 - the consumer MDIB never regresses under lost, duplicated or reordered reports.

A provider history produces the ordered list of notifications n1..nm, withheld by the loop-back transport.  A generated
delivery schedule (any sequence over the indices, with omissions and repetitions, plus application reloads) feeds the
consumer.  The initial load runs with provider commits in flight (before the provider computes the GetMdib answer and
after it, before the consumer sees it), and a SequenceId / InstanceId change is followed by further reports and a reload.
"""
from __future__ import annotations

import copy
import re

from hypothesis import strategies as st

from vf import canon as C
from vf import loopback as L
from vf import run as R
from vf import world as W
from vf.gen import mdibprog as MP

P = 'C06'
META = {
    'level': 'exploration',
    'rule': ('provider MDIB programs (3-14 ops) x delivery schedules (sequences over the notification indices with drops, '
             'duplicates, reordering, late replays and reload events) x in-flight windows (0-3 commits before / after the '
             'provider answers GetMdib, between GetMdib and a separate GetContextStates; optionally some of the reports '
             'of these commits are lost) x optional SequenceId / InstanceId change; non-trivial = the schedule contains a '
             'duplicate or a reorder across a version boundary, or an in-flight window with >= 1 commit, or an id change; '
             'distinct by case'),
    'assumptions': ['notifications are handled synchronously in the delivering thread',
                    'a provider restart is modelled as a change of the provider MDIB SequenceId / InstanceId'],
}

FIXTURE = 'mdib_two_mds.xml'


def st_case():
    inv = MP.inventory(FIXTURE)
    simple = MP.st_op(inv, multi=True, kw_hold=False, aborts=False, ctx_delete=False)
    prog = st.lists(simple, min_size=3, max_size=14)
    inflight = st.lists(MP.st_op(inv, descriptor_ops=True, multi=False, kw_hold=False, aborts=False, ctx_delete=False), max_size=3)
    sched = st.lists(st.one_of(st.integers(0, 40), st.integers(0, 40), st.integers(0, 40), st.just('R')), min_size=1, max_size=30)
    ordered_with_noise = st.tuples(st.lists(st.booleans(), min_size=40, max_size=40), st.lists(st.tuples(st.integers(0, 40), st.integers(0, 40)), max_size=6)).map(
        lambda t: ('ordered', t[0], t[1]))
    # commits between GetMdib and a separate GetContextStates that change one context state more than once
    ctx_classes = sorted({c for _h, c in inv.context_descriptors})
    same_ctx = st.tuples(st.sampled_from(inv.context_states[:4] or ['vf_ctx_0']), st.lists(st.tuples(
        st.sampled_from(ctx_classes).flatmap(MP._state_spec), st.sampled_from([None, 'Assoc', 'Dis']), MP.IFACE),  # noqa: SLF001
        min_size=2, max_size=3)).map(lambda t: [['ctx_update', t[0], x[0], x[1], x[2]] for x in t[1]])
    locations = st.lists(st.tuples(st.just('set_location'), MP.st_location()).map(list), min_size=2, max_size=3)
    mid = st.one_of(inflight, inflight, same_ctx, locations)
    return st.fixed_dictionaries({
        'prog': prog, 'pre': inflight, 'post': inflight,
        'schedule': st.one_of(sched, ordered_with_noise),
        'idchange': st.sampled_from([None, None, 'seq', 'inst', 'both']),
        'after_change': st.lists(simple, min_size=1, max_size=3),
        # the provider leaves the context states out of GetMdibResponse: the consumer asks for them separately, and
        # `mid` is committed after GetMdib was answered and before GetContextStates is
        'ctx_separate': st.booleans(), 'mid': mid,
        # reports emitted while the initial load is in flight that never reach the consumer (position mod length)
        'lose': st.one_of(st.just([]), st.just([]), st.lists(st.booleans(), min_size=1, max_size=5))})


def expand_schedule(schedule, m):
    """A concrete delivery sequence over range(m) (+ 'R')."""
    if isinstance(schedule, (list, tuple)) and schedule and schedule[0] == 'ordered':
        _, keep, extras = schedule
        seq = [i for i in range(m) if keep[i % len(keep)]]
        for pos, idx in extras:  # duplicates / late replays inserted into an otherwise ordered delivery
            if m:
                seq.insert(pos % (len(seq) + 1), idx % m)
        return seq
    return [x if x == 'R' else (x % m if m else None) for x in schedule if x == 'R' or m]


def state_versions(mdib):
    out = {}
    for s in mdib.states.objects:
        out[('s', s.DescriptorHandle)] = s.StateVersion
    for s in mdib.context_states.objects:
        out[('c', s.Handle)] = s.StateVersion
    return out


def state_canons(mdib):
    out = {}
    for s in mdib.states.objects:
        out[('s', s.DescriptorHandle)] = C.canon(s)
    for s in mdib.context_states.objects:
        out[('c', s.Handle)] = C.canon(s)
    return out


class Runner:
    def __init__(self, case):
        from sdc11073.mdib.consumermdib import ConsumerMdib
        from vf.props import c01
        c01.park_role_workers()
        L.reset_network()
        W.quiet_logging()
        self.case = case
        self.inv = MP.inventory(FIXTURE)
        self.world = W.World(W.fixture(FIXTURE))
        self.interp = MP.Interp(self.world.mdib, self.inv, provider=self.world.provider)
        self.consumer, _ = self.world.add_consumer(init_mdib=False)
        self.cons_netloc = self.world.consumers[0][2].netloc
        self.published = {}
        self.findings = []
        self.flags = set()
        self.publish()
        # ---- initial load with commits in flight
        state = {'pre': list(case['pre']), 'post': list(case['post']), 'mid': list(case.get('mid', ()))}
        if case.get('ctx_separate'):
            self.world.provider.contextstates_in_getmdib = False
            self.flags.add('separate-GetContextStates')

        def is_get_mdib(entry):
            return entry.action is not None and entry.action.endswith('/GetMdib')

        def pre(entry):
            if is_get_mdib(entry) and state['pre']:
                ops, state['pre'] = state['pre'], []
                self.run_ops(ops)
                self.flags.add('inflight-before-answer')
            if entry.action is not None and entry.action.endswith('/GetContextStates') and state['mid'] and case.get('ctx_separate'):
                ops, state['mid'] = state['mid'], []
                if self.run_ops(ops):
                    self.flags.add('inflight-between-GetMdib-and-GetContextStates')

        def post(entry):
            if is_get_mdib(entry) and state['post']:
                ops, state['post'] = state['post'], []
                self.run_ops(ops)
                self.flags.add('inflight-after-answer')
        L.NET.pre_handle, L.NET.post_handle = pre, post
        lose = list(case.get('lose') or ())
        lost = {'n': 0, 'seen': 0}

        def lossy(entry):
            if lose and entry.netloc == self.cons_netloc and entry.action and 'SubscriptionEnd' not in entry.action:
                lost['seen'] += 1
                if lose[(lost['seen'] - 1) % len(lose)]:
                    lost['n'] += 1
                    return ('drop',)
            return None
        L.NET.interceptor = lossy
        log0 = len(L.NET.log)
        self.cmdib = ConsumerMdib(self.consumer)
        # states the consumer announces as updated while it replays the reports buffered during the load
        from sdc11073 import observableproperties as properties
        announced = []

        def on_states(by_handle):
            for st_ in (by_handle or {}).values():
                announced.append((('c', st_.Handle) if st_.is_context_state else ('s', st_.DescriptorHandle), st_.StateVersion))
        names = ('metrics_by_handle', 'alert_by_handle', 'component_by_handle', 'context_by_handle', 'operation_by_handle',
                 'waveform_by_handle')
        properties.strongbind(self.cmdib, **{n: on_states for n in names})
        try:
            self.cmdib.init_mdib()
        except Exception as ex:  # noqa: BLE001
            if not R.exc_in_library(ex):
                raise
            self.findings.append((f'{P}/initial-load-raises/{R.exc_sig(ex)}',
                                  f'init_mdib with {len(case["pre"])}+{len(case["post"])} commits in flight: {type(ex).__name__}: {ex}'[:300]))
        finally:
            L.NET.pre_handle = L.NET.post_handle = None
            L.NET.interceptor = None
            properties.unbind(self.cmdib, **{n: on_states for n in names})
        if not self.findings:
            # a buffered report that is older than what a Get response of this load delivered must not be applied
            given = self.given_by_get_responses(log0)
            for key, sv in announced:
                if key in given and sv < given[key][0]:
                    self.findings.append((f'{P}/state-version-decreased/initial-load-replay',
                                          f'{key}: {given[key][1]}Response delivered StateVersion {given[key][0]}, then the replay '
                                          f'of a report buffered during the load applied StateVersion {sv}'))
                    break
        if not self.findings and not lost['n']:
            self.expect_mirror('initial-load')
        elif not self.findings:
            # some reports of the in-flight commits never arrived: no mirror can be expected, but the consumer holds
            # nothing older than what the Get responses of this very load gave it, and nothing the provider never published
            self.flags.add('reports-lost-during-initial-load')
            self.lossy_load_findings(log0)
            if not self.findings:
                self.cmdib.reload_all()
                self.expect_mirror('reload-after-lossy-load')

    def given_by_get_responses(self, log0) -> dict:
        """{state key: (highest StateVersion a Get response of the load delivered, request name)}"""
        from lxml import etree
        out = {}
        for entry in L.NET.log[log0:]:
            if not entry.action or not entry.action.endswith(('/GetMdib', '/GetContextStates')) or not entry.response:
                continue
            for el in etree.fromstring(entry.response).iter():
                if not isinstance(el.tag, str) or el.get('DescriptorHandle') is None:
                    continue
                if etree.QName(el).localname not in ('State', 'ContextState'):
                    continue
                key = ('c', el.get('Handle')) if el.get('Handle') is not None else ('s', el.get('DescriptorHandle'))
                sv = int(el.get('StateVersion') or 0)
                if key not in out or out[key][0] < sv:
                    out[key] = (sv, entry.action.split('/')[-1])
        return out

    def lossy_load_findings(self, log0):
        from lxml import etree
        cm = self.cmdib
        have = state_versions(cm)
        for entry in L.NET.log[log0:]:
            if not entry.action or not entry.action.endswith(('/GetMdib', '/GetContextStates')) or not entry.response:
                continue
            what = entry.action.split('/')[-1]
            root = etree.fromstring(entry.response)
            body = root.find('{http://www.w3.org/2003/05/soap-envelope}Body')
            v = body[0].get('MdibVersion') if body is not None and len(body) else None
            # (the consumer takes its MdibVersion from GetMdibResponse, not from GetContextStatesResponse)
            if what == 'GetMdib' and v is not None and cm.mdib_version is not None and cm.mdib_version < int(v):
                self.findings.append((f'{P}/mdib-version-decreased/initial-load',
                                      f'{what}Response carried MdibVersion {v}, after the load the consumer has {cm.mdib_version}'))
            for el in root.iter():
                if el.get('DescriptorHandle') is None or not isinstance(el.tag, str):
                    continue
                local = etree.QName(el).localname
                if local not in ('State', 'ContextState'):
                    continue
                key = ('c', el.get('Handle')) if el.get('Handle') is not None else ('s', el.get('DescriptorHandle'))
                sv = int(el.get('StateVersion') or 0)
                if key in have and have[key] < sv:
                    self.findings.append((f'{P}/state-version-decreased/initial-load',
                                          f'{key}: {what}Response delivered StateVersion {sv}, after the load (with lost reports) '
                                          f'the consumer holds {have[key]}'))
                    return
        for problem in C.audit_mdib(cm, 'consumer'):
            self.findings.append((f'{P}/lookup/{problem.split("[")[0].split(":")[0]}', f'after a lossy initial load: {problem}'))
        for k, c in state_canons(cm).items():
            if c not in self.published.get(k, ()):
                self.findings.append((f'{P}/state-never-published/initial-load',
                                      f'after a lossy initial load the consumer holds a version of {k} the provider never published'))
                break

    def close(self):
        L.NET.interceptor = None
        self.world.close()

    def publish(self):
        for k, c in state_canons(self.world.mdib).items():
            self.published.setdefault(k, []).append(c)

    def run_ops(self, ops):
        n = 0
        for op in ops:
            try:
                info = self.interp.run(op)
                if not info['skipped']:
                    n += 1
            except Exception as ex:  # noqa: BLE001
                if not R.exc_in_library(ex):
                    raise
            self.publish()
        return n

    def expect_mirror(self, where):
        d = C.diff_mdib(C.canon_mdib(self.world.mdib), C.canon_mdib(self.cmdib))
        if d:
            first = str(d[0][0])
            self.findings.append((f'{P}/not-a-mirror/{where}/{first.split("[")[0]}',
                                  f'{where}: provider vs consumer: {[list(map(str, x)) for x in d[:3]]}'))

    def hold(self, entry):
        if entry.netloc == self.cons_netloc and entry.action and 'SubscriptionEnd' not in entry.action:
            return ('hold',)
        return None

    def deliver(self, i, label):
        entry, headers = self.held[i]
        cm = self.cmdib
        v_before = cm.mdib_version
        sv_before = state_versions(cm)
        msg_version = self.msg_versions[i]
        stale = msg_version is not None and v_before is not None and msg_version < v_before
        repeated = i in self.delivered
        must_not_change = stale or repeated or self.invalid_expected
        snap_before = C.canon_mdib(cm) if must_not_change else None
        try:
            L.NET.replay(entry, headers)
        except Exception as ex:  # noqa: BLE001
            if not R.exc_in_library(ex):
                raise
        out = self.findings
        if cm.mdib_version is not None and v_before is not None and cm.mdib_version < v_before:
            out.append((f'{P}/mdib-version-decreased/{label}', f'{v_before} -> {cm.mdib_version} after delivering n{i}'))
        sv_after = state_versions(cm)
        for k, v in sv_after.items():
            if k in sv_before and v < sv_before[k]:
                out.append((f'{P}/state-version-decreased/{label}', f'{k}: {sv_before[k]} -> {v} after delivering n{i} ({entry.action.split("/")[-1]})'))
                break
        if must_not_change:
            d = C.diff_mdib(snap_before, C.canon_mdib(cm))
            if d:
                why = 'id-changed' if self.invalid_expected else ('stale' if stale else 'duplicate')
                out.append((f'{P}/{why}-report-changed-mdib/{entry.action.split("/")[-1]}',
                            f'n{i} (MdibVersion {msg_version}, consumer had {v_before}, {why}): {[list(map(str, x)) for x in d[:2]]}'))
        self.delivered.add(i)
        for problem in C.audit_mdib(cm, 'consumer'):
            out.append((f'{P}/lookup/{problem.split("[")[0].split(":")[0]}', f'after n{i}: {problem}'))
        for k, c in state_canons(cm).items():
            if c not in self.published.get(k, ()):
                d = C.diff(self.published[k][-1], c) if self.published.get(k) else []
                out.append((f'{P}/state-never-published/{label}', f'after n{i}: consumer holds a version of {k} the provider never '
                                                                  f'published: {[list(map(str, x)) for x in d[:2]]}'))
                break

    def run(self):
        if self.findings:
            return self.findings
        case = self.case
        from lxml import etree
        L.NET.interceptor = self.hold
        self.run_ops(case['prog'])
        self.held = list(L.NET.held)
        del L.NET.held[:]
        self.msg_versions = []
        for entry, _h in self.held:
            root = etree.fromstring(entry.request)
            body = root.find('{http://www.w3.org/2003/05/soap-envelope}Body')
            v = body[0].get('MdibVersion') if body is not None and len(body) else None
            self.msg_versions.append(int(v) if v is not None else None)
        m = len(self.held)
        seq = expand_schedule(case['schedule'], m)
        self.delivered = set()
        self.invalid_expected = False
        last = -1
        for x in seq:
            if x == 'R':
                self.flags.add('reload')
                self.cmdib.reload_all()
                self.expect_mirror('after-reload')
                self.delivered = set(range(m))  # everything withheld so far is older than the reloaded state
                last = m
            elif x is not None:
                if x in self.delivered:
                    self.flags.add('duplicate')
                elif x < last:
                    self.flags.add('reorder')
                last = max(last, x)
                self.deliver(x, 'schedule')
            if self.findings:
                return self.findings
        # complete in-order delivery of everything outstanding: without reload the consumer need not be a mirror (drops),
        # after a reload it must be one, and stale replays must not change it
        L.NET.interceptor = None
        if case['idchange']:
            self.flags.add(f'idchange:{case["idchange"]}')
            mdib = self.world.mdib
            if case['idchange'] in ('seq', 'both'):
                mdib.sequence_id = 'urn:uuid:00000000-0000-0000-0000-0000000000ff'
            if case['idchange'] in ('inst', 'both'):
                mdib.instance_id = (mdib.instance_id or 0) + 7
            snap = C.canon_mdib(self.cmdib)
            self.run_ops(case['after_change'])  # delivered immediately
            d = C.diff_mdib(snap, C.canon_mdib(self.cmdib))
            if d:
                self.findings.append((f'{P}/updated-after-id-change/{case["idchange"]}',
                                      f'reports with a new {case["idchange"]} id changed the consumer MDIB: '
                                      f'{[list(map(str, x)) for x in d[:2]]}'))
                return self.findings
        # the reload runs with reports in flight: withheld reports of the history arrive while GetMdib is being answered
        # (after an id change they belong to the old run; a delayed report of the old run may well carry a higher
        # MdibVersion than the answer of the restarted provider, so their MdibVersion is raised by 1000)
        in_flight = [i for i in range(m) if case['schedule'] and (i * 7 + len(seq)) % 3 == 0][:4]
        fired = {'n': 0}

        def arrivals(entry):
            if entry.action is not None and entry.action.endswith('/GetMdib') and not fired['n']:
                fired['n'] = 1
                for i in in_flight:
                    held_entry, headers = self.held[i]
                    dup = copy.copy(held_entry)
                    if case['idchange']:
                        dup.request = re.sub(rb'MdibVersion="(\d+)"', lambda mo: b'MdibVersion="%d"' % (int(mo.group(1)) + 1000),
                                             held_entry.request)
                    try:
                        L.NET.replay(dup, headers)
                    except Exception as ex:  # noqa: BLE001
                        if not R.exc_in_library(ex):
                            raise
                if in_flight:
                    self.flags.add('reports-during-reload')
        L.NET.pre_handle = arrivals
        try:
            self.cmdib.reload_all()
        finally:
            L.NET.pre_handle = None
        self.expect_mirror('final-reload')
        if not self.findings:
            # replays of the withheld reports: all of them are older than the reloaded state.  After an id change they
            # also carry the old ids, which the consumer must treat as one more id change: nothing is applied, and
            # updates stop until the application reloads again.
            self.invalid_expected = bool(case['idchange'])
            self.delivered = set(range(m))
            for i in range(m):
                self.deliver(i, 'replay-after-reload')
                if self.findings:
                    break
            if not self.findings:
                self.expect_mirror('after-stale-replays')
            if not self.findings and case['idchange'] and m:
                self.cmdib.reload_all()
                self.expect_mirror('reload-after-old-id-replays')
            self.invalid_expected = False
            if not self.findings:
                # and the world goes on: fresh reports after the reload keep the mirror
                self.run_ops(case['after_change'])
                self.expect_mirror('after-further-commits')
        return self.findings


def case_fn(ctx, case):
    r = Runner(case)
    try:
        findings = r.run()
    finally:
        r.close()
    nontrivial = bool(r.flags & {'duplicate', 'reorder', 'inflight-before-answer', 'inflight-after-answer',
                                 'reports-lost-during-initial-load',
                                 'reports-during-reload', 'inflight-between-GetMdib-and-GetContextStates'}) or any(
        f.startswith('idchange') for f in r.flags)
    ctx.case(case, nontrivial, 'case', classes=tuple(sorted(r.flags)))
    return findings


def shard(ctx, n):
    R.hyp_campaign(ctx, 'case', st_case(), lambda c: case_fn(ctx, c), n, shrink_s=40 if ctx.tier == 'quick' else 200)


# ------------------------------------------------------------------------------------ part: load under the scheduler
def st_load_scenario():
    inv = MP.inventory(FIXTURE)
    op = MP.st_op(inv, descriptor_ops=True, multi=False, kw_hold=False, aborts=False, ctx_delete=False)
    return st.fixed_dictionaries({
        'mode': st.sampled_from(['init', 'reload']), 'ctx_separate': st.sampled_from([False, False, True]),
        'pre': st.lists(op, max_size=1), 'post': st.lists(op, min_size=1, max_size=2)})


def loadsched_run(scenario, choices, default='first'):
    """The consumer loads its MDIB (init_mdib / reload_all, task `load`) while the notification thread (task `notify`)
    delivers the reports of commits that happened while GetMdib was in flight (`pre`: before the provider computed the
    answer, `post`: after it).  Yield points: acquire / release of ConsumerMdib.mdib_lock and of the lock of the report
    buffer.  When both tasks are done every report has been delivered once, in order: the consumer must be a mirror.
    -> (findings, info)"""
    from sdc11073.mdib.consumermdib import ConsumerMdib

    from vf import sched as S
    from vf.props import c01
    c01.park_role_workers()
    L.reset_network()
    W.quiet_logging()
    inv = MP.inventory(FIXTURE)
    world = W.World(W.fixture(FIXTURE))
    findings = []
    sched = S.Sched(choices, default=default)
    try:
        if scenario.get('ctx_separate'):
            world.provider.contextstates_in_getmdib = False
        interp = MP.Interp(world.mdib, inv, provider=world.provider)
        consumer, _ = world.add_consumer(init_mdib=False)
        netloc = world.consumers[0][2].netloc
        cm = ConsumerMdib(consumer)
        if scenario['mode'] == 'reload':
            cm.init_mdib()
        L.NET.interceptor = lambda e: ('hold',) if e.netloc == netloc and e.action and 'SubscriptionEnd' not in e.action else None
        cm.mdib_lock = S.SchedLock(sched, 'consumer.mdib_lock')
        cm._buffered_notifications_lock = S.SchedLock(sched, 'buffer_lock', reentrant=False)  # noqa: SLF001
        gate = S.SchedLock(sched, 'reports-exist', yield_when_free=False)
        state = {'pre': list(scenario['pre']), 'post': list(scenario['post']), 'applied': 0}

        def run_ops(ops):
            for op in ops:
                try:
                    if not interp.run(op)['skipped']:
                        state['applied'] += 1
                except Exception as ex:  # noqa: BLE001
                    if not R.exc_in_library(ex):
                        raise

        def pre(entry):
            if entry.action is not None and entry.action.endswith('/GetMdib') and state['pre']:
                ops, state['pre'] = state['pre'], []
                run_ops(ops)

        def post(entry):
            if entry.action is not None and entry.action.endswith('/GetMdib') and state['post']:
                ops, state['post'] = state['post'], []
                run_ops(ops)
                gate.release()  # from here on the notification task delivers

        def load():
            gate.acquire()
            try:
                if scenario['mode'] == 'init':
                    cm.init_mdib()
                else:
                    cm.reload_all()
            finally:
                if gate.owner is sched.current():
                    gate.release()

        def notify():
            with gate:
                pass
            i = 0
            while i < len(L.NET.held):  # (reports are only produced inside the two windows, before the gate opens)
                entry, headers = L.NET.held[i]
                i += 1
                try:
                    L.NET.replay(entry, headers)
                except Exception as ex:  # noqa: BLE001
                    if not R.exc_in_library(ex):
                        raise
                    findings.append((f'{P}/load-sched/delivery-raises/{R.exc_sig(ex)}', f'{type(ex).__name__}: {ex}'[:300]))
        L.NET.pre_handle, L.NET.post_handle = pre, post
        sched.spawn('load', load)
        sched.spawn('notify', notify)
        try:
            sched.run()
        finally:
            L.NET.pre_handle = L.NET.post_handle = None
            L.NET.interceptor = None
        for t in sched.tasks:
            if t.exc is not None:
                if not R.exc_in_library(t.exc):
                    raise t.exc
                findings.append((f'{P}/load-sched/{t.name}-raises/{R.exc_sig(t.exc)}', f'{type(t.exc).__name__}: {t.exc}'[:300]))
        if not findings:
            d = C.diff_mdib(C.canon_mdib(world.mdib), C.canon_mdib(cm))
            if d:
                first = str(d[0][0])
                findings.append((f'{P}/load-sched/not-a-mirror/{scenario["mode"]}/{first.split("[")[0]}',
                                 f'all {len(L.NET.held)} reports were delivered once and in order while the consumer loaded; '
                                 f'provider vs consumer: {[list(map(str, x)) for x in d[:3]]}; schedule {sched.trace}'[:900]))
            for problem in C.audit_mdib(cm, 'consumer'):
                findings.append((f'{P}/load-sched/lookup/{problem.split("[")[0].split(":")[0]}', problem))
        info = {'taken': list(sched.taken), 'branching': list(sched.branching), 'reports': len(L.NET.held),
                'applied': state['applied'],
                'switches': sum(1 for a, b in zip(sched.trace, sched.trace[1:]) if a[0] != b[0])}
    finally:
        world.close()
    return findings, info


def loadsched_case(ctx, case):
    findings, info = loadsched_run(case['scenario'], case['choices'], default='continue')
    key = {'scenario': case['scenario'], 'choices': info['taken']}
    ctx.case(key, info['reports'] > 0 and info['switches'] >= 2, 'load-sched',
             classes=(case['scenario']['mode'],) + (('separate-GetContextStates',) if case['scenario']['ctx_separate'] else ()))
    return findings


def shard_loadsched(ctx, n):
    strat = st.tuples(st_load_scenario(), st.lists(st.integers(0, 1), max_size=40)).map(
        lambda t: {'scenario': t[0], 'choices': t[1]})
    R.hyp_campaign(ctx, 'load-sched', strat, lambda c: loadsched_case(ctx, c), n, shrink_s=30 if ctx.tier == 'quick' else 150)


def shard_loadsched_dfs(ctx, seed, n, max_schedules):
    """All schedules (depth first) of n generated scenarios."""
    from hypothesis import HealthCheck, Phase, given, settings
    from hypothesis import seed as hseed

    from vf import sched as S
    got = []

    @hseed(seed)
    @settings(max_examples=n, database=None, deadline=None, phases=[Phase.generate], suppress_health_check=list(HealthCheck))
    @given(st_load_scenario())
    def collect(sc):
        got.append(sc)
    collect()
    for scenario in got[:n]:
        choices, count, complete = [], 0, False
        while choices is not None and count < max_schedules and not ctx.out_of_budget():
            findings, info = loadsched_run(scenario, choices, default='first')
            count += 1
            case = {'scenario': scenario, 'choices': info['taken']}
            ctx.case(case, info['reports'] > 0 and info['switches'] >= 2, 'load-sched-dfs', classes=(scenario['mode'],))
            for sig, detail in findings:
                ctx.finding(sig, detail, case, 'load-sched-dfs')
            choices = S.next_dfs(info['taken'], info['branching'])
            complete = choices is None
        ctx.count('load-sched-dfs/scenarios-complete' if complete else 'load-sched-dfs/scenarios-truncated')
        ctx.count('load-sched-dfs/schedules', count)


def run(ctx):
    quick = ctx.tier == 'quick'
    jobs = [('shard', 8 if quick else 400)] * 10
    jobs += [('shard_loadsched', 14 if quick else 500)] * 3
    jobs += [('shard_loadsched_dfs', ctx.sub_seed('dfs', i) % 2**32, 1 if quick else 6, 80 if quick else 5000) for i in range(3)]
    R.run_shards(ctx, __name__, 'shard_any', jobs)


def shard_any(ctx, name, *args):
    globals()[name](ctx, *args)


def replay(part, case):
    ctx = R.Ctx(P, 'quick', 0, {})
    if part == 'load-sched':
        return loadsched_run(case['scenario'], case['choices'], default='continue')[0]
    if part == 'load-sched-dfs':
        return loadsched_run(case['scenario'], case['choices'], default='first')[0]
    if isinstance(case.get('schedule'), list) and case['schedule'] and case['schedule'][0] == 'ordered':
        case['schedule'] = tuple(case['schedule'])
    return case_fn(ctx, case)
