"""C04 - reports are complete, truthful, schema-valid and delivered in version order.

Part `reports`: generated MDIB programs on a multi-MDS and a single-MDS MDIB, sync and async subscription manager.  Every
committed MdibVersion is snapshotted while the committing thread still holds mdib_lock; every notification put on the
wire for a subscriber is parsed back and compared with the snapshots: version group, exactly the changed entities, their
content at that version, SourceMds grouping.  Every message of the run (requests, responses, notifications) is validated
with an lxml XMLSchema built from the bundled schema files, independently of the library's own validation.  With the
periodic-report store enabled, the retained copies are compared with the snapshot of the version they are labelled with
after every further operation, and one real iteration of the periodic send loop is run at the end.

Part `order`: 2-3 writer threads under the cooperative scheduler of vf.sched (yield points: mdib_lock, transaction lock,
the subscription tables' locks): the MdibVersions of the episodic / waveform / description modification reports each
subscriber receives must be non-decreasing in delivery order.  Small scenarios are enumerated exhaustively.
"""
from __future__ import annotations

import threading

from hypothesis import strategies as st
from lxml import etree

from vf import canon as C
from vf import loopback as L
from vf import run as R
from vf import sched as S
from vf import world as W
from vf.gen import mdibprog as MP

P = 'C04'
META = {
    'level': 'exploration',
    'rule': ('reports: MDIB programs (1-12 ops, all transaction kinds incl. descriptor create / update / delete and '
             'multi-operation transactions) x {tests/mdib_two_mds.xml (2 MDS), tests/mdib_tns.xml (1 MDS)} x {sync, async '
             'manager} x {periodic store off / on}; non-trivial = >= 2 transaction kinds applied and >= 1 report with >= 2 '
             'entities or >= 2 report parts; order: 2-3 writers x 1-3 transactions x schedule; non-trivial = >= 1 context '
             'switch between two commits; distinct by case (+ executed schedule)'),
    'assumptions': ['the subscriber handles notifications synchronously in the delivering thread',
                    'interleavings of writers are explored at the granularity of the instrumented locks',
                    'the periodic send loop is run for exactly one iteration in the harness thread (its timer is replaced)',
                    'the removal of a single context state through the entity interface is not expected in any report (the '
                    'library documents that it cannot be communicated)'],
}

S12 = 'http://www.w3.org/2003/05/soap-envelope'
MSG = 'http://standards.ieee.org/downloads/11073/11073-10207-2017/message'
STATE_REPORTS = ('EpisodicMetricReport', 'EpisodicAlertReport', 'EpisodicComponentReport', 'EpisodicContextReport',
                 'EpisodicOperationalStateReport')
PERIODIC_REPORTS = ('PeriodicMetricReport', 'PeriodicAlertReport', 'PeriodicComponentReport', 'PeriodicContextReport',
                    'PeriodicOperationalStateReport')
ORDERED = (*STATE_REPORTS, 'WaveformStream', 'DescriptionModificationReport')
FIXTURES = ('mdib_two_mds.xml', 'mdib_tns.xml')


class HookLock:
    """Re-entrant lock that calls `hook()` just before its final release (the MDIB is still locked then)."""

    def __init__(self, hook):
        self._lock = threading.RLock()
        self._depth = threading.local()
        self._hook = hook

    def acquire(self, *a, **k):
        ok = self._lock.acquire(*a, **k)
        if ok:
            self._depth.n = getattr(self._depth, 'n', 0) + 1
        return ok

    def release(self):
        self._depth.n -= 1
        if self._depth.n == 0:
            self._hook()
        self._lock.release()

    __enter__ = acquire

    def __exit__(self, *exc):
        self.release()
        return False


def snapshot(mdib):
    parents = {d.Handle: d.parent_handle for d in mdib.descriptions.objects}

    def mds_of(h):
        seen = set()
        while h in parents and parents[h] is not None and h not in seen:
            seen.add(h)
            h = parents[h]
        return h if h in parents else None
    return {
        'vg': (mdib.mdib_version, mdib.sequence_id, mdib.instance_id),
        'd': {d.Handle: (d.parent_handle, C.canon(d)) for d in mdib.descriptions.objects},
        's': {s.DescriptorHandle: C.canon(s) for s in mdib.states.objects},
        'c': {s.Handle: C.canon(s) for s in mdib.context_states.objects},
        'cd': {s.Handle: s.DescriptorHandle for s in mdib.context_states.objects},
        'mds': {h: mds_of(h) for h in parents},
    }


def changed_keys(a, b):
    out = set()
    for kind in ('d', 's', 'c'):
        for h in a[kind].keys() | b[kind].keys():
            if a[kind].get(h) != b[kind].get(h):
                out.add((kind, h))
    return out


_VALIDATOR = {}


def wire_validator(xml: bytes, what: str) -> list:
    from vf.props import c05
    if 'schema' not in _VALIDATOR:
        _VALIDATOR['schema'] = c05.probe_schema()
    schema = _VALIDATOR['schema']
    try:
        doc = etree.fromstring(xml)
    except etree.XMLSyntaxError as ex:
        return [(what, f'not well-formed: {ex}')]
    if doc.tag != f'{{{S12}}}Envelope':
        return []  # wsdl / plain documents served by GET are not SOAP messages
    if schema.validate(doc):
        return []
    return [(what, '; '.join(e.message for e in list(schema.error_log)[:2]))]


def parse_notification(data_model, xml: bytes):
    root = etree.fromstring(xml)
    body = root.find(f'{{{S12}}}Body')
    if body is None or not len(body):
        return None, None
    node = body[0]
    name = etree.QName(node.tag).localname
    cls = getattr(data_model.msg_types, name, None)
    if cls is None or not hasattr(cls, 'from_node'):
        return name, None
    return name, cls.from_node(node)


def report_items(name, report):
    """[(part index, SourceMds, modification type | None, kind, key handle, content canon, descriptor handle)]"""
    out = []
    if name == 'WaveformStream':
        for s in report.State:
            out.append((0, None, None, 's', s.DescriptorHandle, C.canon(s), s.DescriptorHandle))
        return out
    for i, part in enumerate(report.ReportPart):
        if name == 'DescriptionModificationReport':
            mod = part.ModificationType.value
            for d in part.Descriptor:
                out.append((i, part.SourceMds, mod, 'd', d.Handle, (part.ParentDescriptor, C.canon(d)), d.Handle))
            for s in part.State:
                if s.is_context_state:
                    out.append((i, part.SourceMds, mod, 'c', s.Handle, C.canon(s), s.DescriptorHandle))
                else:
                    out.append((i, part.SourceMds, mod, 's', s.DescriptorHandle, C.canon(s), s.DescriptorHandle))
        else:
            for s in part.values_list:
                if s.is_context_state:
                    out.append((i, part.SourceMds, None, 'c', s.Handle, C.canon(s), s.DescriptorHandle))
                else:
                    out.append((i, part.SourceMds, None, 's', s.DescriptorHandle, C.canon(s), s.DescriptorHandle))
    return out


def judge_reports(entries, snaps, v0, v1, data_model, where, label):  # noqa: C901, PLR0912, PLR0913
    """Compare the notifications one subscriber received (`entries`, wire log) with the snapshots of the versions v0+1..v1."""
    out = []
    rich = False
    reported = {v: set() for v in range(v0 + 1, v1 + 1)}
    in_descr_report = {v: set() for v in reported}  # entities named by the DescriptionModificationReport(s) of v
    descr_parts = {v: set() for v in reported}  # descriptor handles of their Crt / Upt parts
    for e in entries:
        if e.action is None:
            continue
        name, report = parse_notification(data_model, e.request)
        if name not in ORDERED or report is None:
            continue
        v = report.MdibVersion
        if v not in reported or v not in snaps:
            out.append((f'{P}/report-version-not-committed/{name}', f'{where}: {name} states MdibVersion {v}, the '
                                                                    f'operation committed {v0 + 1}..{v1}'))
            continue
        snap, prev = snaps[v], snaps.get(v - 1)
        vg = (report.MdibVersion, report.SequenceId, report.InstanceId)
        if vg != snap['vg']:
            out.append((f'{P}/report-version-group/{name}', f'{where}: {name} carries {vg}, committed {snap["vg"]}'))
        items = report_items(name, report)
        if len(items) >= 2 or len({i[0] for i in items}) >= 2:
            rich = True
        for part, source_mds, mod, kind, handle, content, descr_handle in items:
            deleted = mod == 'Del'
            ref = prev if deleted else snap
            if ref is None:
                continue
            if name == 'DescriptionModificationReport':
                in_descr_report[v].add((kind, handle))
                if kind == 'd' and not deleted:
                    descr_parts[v].add(handle)
            if not deleted:
                reported[v].add((kind, handle))
                want = ref[kind].get(handle)
                if want is None:
                    out.append((f'{P}/report-names-unknown-entity/{name}', f'{where}: {name} v{v} contains {kind} {handle} '
                                                                          f'which does not exist at that version'))
                elif want != content:
                    d = C.diff(want, content)
                    out.append((f'{P}/report-content-not-of-its-version/{name}/{kind}',
                                f'{where}: {name} v{v} {kind} {handle}: {[list(map(str, x)) for x in d[:2]]}'))
            else:
                reported[v].add((kind, handle))
                if handle in snap[kind]:
                    out.append((f'{P}/report-deletes-existing-entity/{name}', f'{where}: {kind} {handle} is reported as '
                                                                             f'deleted but exists at v{v}'))
            mds = ref['mds'].get(descr_handle)
            if source_mds is not None and mds is not None and source_mds != mds:
                out.append((f'{P}/wrong-source-mds/{name}', f'{where}: {name} part {part} SourceMds={source_mds} contains '
                                                            f'{kind} {handle} of MDS {mds}'))
            if source_mds is None and name != 'WaveformStream' and len(set(snap['mds'].values()) - {None}) > 1:
                out.append((f'{P}/no-source-mds/{name}', f'{where}: {name} part {part} has no SourceMds in a multi-MDS MDIB'))
    for v in range(v0 + 1, v1 + 1):
        if v not in snaps or v - 1 not in snaps:
            continue
        prev, snap = snaps[v - 1], snaps[v]
        changed = changed_keys(prev, snap)
        # the states of a deleted descriptor disappear with it: the Del part for the descriptor covers them
        implied = {(k, h) for k, h in changed if k == 's' and h not in snap['s'] and h not in snap['d']}
        # ... and a context state that was removed on its own (entity interface) 'cannot be communicated via notification'
        # (comment in ContextStateTransaction.write_entity; BICEPS has no report for it)
        implied |= {(k, h) for k, h in changed if k == 'c' and h not in snap['c']}
        changed -= implied
        reported[v] -= implied
        missing = changed - reported[v]
        extra = reported[v] - changed
        if missing:
            k = sorted(missing)[0]
            out.append((f'{P}/changed-not-reported/{label}/{k[0]}', f'{where}: v{v} changed {sorted(missing)[:4]} but no '
                                                                    f'report of that version contains them'))
        if extra:
            k = sorted(extra)[0]
            out.append((f'{P}/reported-not-changed/{label}/{k[0]}', f'{where}: v{v} reports contain {sorted(extra)[:4]} '
                                                                    f'which did not change at that version'))
        # a description modification report part carries the changed states of its descriptor (BICEPS: a subscriber of
        # description reports alone must see them), whatever the episodic state reports of the same version contain
        lost = sorted((k, h) for k, h in changed if k in 'sc' and (k, h) not in in_descr_report[v]
                      and (h if k == 's' else snap['cd'].get(h)) in descr_parts[v])
        if lost and not missing:
            out.append((f'{P}/changed-state-not-in-description-report/{lost[0][0]}',
                        f'{where}: v{v} created / updated the descriptors {sorted(descr_parts[v])[:4]}; their changed states '
                        f'{lost[:4]} are not in the DescriptionModificationReport'))
    return out, rich


# ------------------------------------------------------------------------------------------------- part: reports
class Runner:
    def __init__(self, case):
        from vf.props import c01
        c01.park_role_workers()
        L.reset_network()
        W.quiet_logging()
        self.case = case
        self.inv = MP.inventory(case['fixture'])
        self.world = W.World(W.fixture(case['fixture']), async_mgr=case['async'])
        self.mdib = self.world.mdib
        self.snaps = {}
        self._orig_lock = self.mdib.mdib_lock
        self.mdib.mdib_lock = HookLock(self._record)
        self._record()
        self.periodic = None
        if case.get('periodic'):
            from sdc11073.provider.periodicreports import PeriodicReportsHandler
            self.periodic = PeriodicReportsHandler(self.mdib, self.world.provider.hosted_services, fixed_interval=1)
            self.world.provider._periodic_reports_handler = self.periodic  # noqa: SLF001  (no thread is started)
        # the application looks at every transaction result (and may write to what it was handed, see step())
        from sdc11073 import observableproperties as properties
        self.last_result = []
        properties.strongbind(self.mdib, transaction=self._on_transaction)
        L.NET.validator = wire_validator
        self.consumer, _ = self.world.add_consumer(init_mdib=False)
        self.sink = self.world.consumers[0][2].netloc
        self.interp = MP.Interp(self.mdib, self.inv, provider=self.world.provider)
        self.findings = []
        self.kinds = set()
        self.rich = False

    def close(self):
        L.NET.validator = None
        self.mdib.mdib_lock = self._orig_lock
        self.world.close()

    def _record(self):
        v = self.mdib.mdib_version
        if v not in self.snaps:
            self.snaps[v] = snapshot(self.mdib)

    def _on_transaction(self, result):
        if result is not None:
            self.last_result = list(result.all_states())

    def step(self, op):
        log0 = len(L.NET.log)
        v0 = self.mdib.mdib_version
        try:
            info = self.interp.run(op)
            if not info.get('skipped'):
                self.kinds.add(op[0] if op[0] != 'state' else f'state:{op[1]}')
        except Exception as ex:  # noqa: BLE001
            if not R.exc_in_library(ex):
                raise
        v1 = self.mdib.mdib_version
        self.judge(op, log0, v0, v1)
        if self.periodic is not None and self.case.get('app_writes', True) and self.last_result:
            # the application changes its transaction result afterwards: what is kept for the periodic reports is not that
            from vf.props import c03
            for i, st_ in enumerate(self.last_result[:3]):
                c03.nested_write(st_, len(self.kinds) + i, i, min_depth=1)
            self.last_result = []
        self.judge_store(op)

    def judge(self, op, log0, v0, v1):
        found, rich = judge_reports([e for e in L.NET.log[log0:] if e.netloc == self.sink], self.snaps, v0, v1,
                                    self.mdib.data_model, R.short(op, 160), op[0])
        self.findings += found
        self.rich |= rich
        for what, msg in L.NET.schema_problems:
            self.findings.append((f'{P}/schema-invalid/{what.split("/")[-1].split(" ")[-1]}',
                                  f'{R.short(op, 160)}: {what}: {msg}'[:400]))
        del L.NET.schema_problems[:]

    def judge_store(self, op):
        if self.periodic is None:
            return
        for name in ('_periodic_metric_reports', '_periodic_alert_reports', '_periodic_component_state_reports',
                     '_periodic_context_state_reports', '_periodic_operational_state_reports'):
            for ps in getattr(self.periodic, name):
                snap = self.snaps.get(ps.mdib_version)
                if snap is None:
                    self.findings.append((f'{P}/periodic-store/unknown-version', f'{name}: labelled {ps.mdib_version}'))
                    continue
                for s in ps.states:
                    kind, h = ('c', s.Handle) if s.is_context_state else ('s', s.DescriptorHandle)
                    want = snap[kind].get(h)
                    if want != C.canon(s):
                        d = C.diff(want, C.canon(s)) if want is not None else [('', 'absent', '')]
                        self.findings.append((f'{P}/periodic-store/copy-not-of-its-version/{name.strip("_")}',
                                              f'after {R.short(op, 120)}: copy of {h} labelled v{ps.mdib_version}: '
                                              f'{[list(map(str, x)) for x in d[:2]]}'))
                        return

    def run_periodic_iteration(self):
        """One real iteration of PeriodicReportsHandler._simple_periodic_reports_send_loop, in this thread."""
        from sdc11073.provider import periodicreports as pr
        handler = self.periodic
        stored = {}
        for name in ('_periodic_metric_reports', '_periodic_alert_reports', '_periodic_component_state_reports',
                     '_periodic_context_state_reports', '_periodic_operational_state_reports'):
            for ps in getattr(handler, name):
                for s in ps.states:
                    key = ('c', s.Handle) if s.is_context_state else ('s', s.DescriptorHandle)
                    stored.setdefault(key, []).append(ps.mdib_version)

        class OneShotTimer:
            def __init__(self, period_in_seconds):  # noqa: ARG002
                self.n = 0

            def wait_next_interval_begin(self):
                self.n += 1
                if self.n > 1:
                    handler._run_periodic_reports_thread = False  # noqa: SLF001

        class NoSleep:
            @staticmethod
            def sleep(_s):
                return None

            def __getattr__(self, name):
                import time
                return getattr(time, name)
        saved = (pr.time, pr.intervaltimer.IntervalTimer)
        pr.time, pr.intervaltimer.IntervalTimer = NoSleep(), OneShotTimer
        log0 = len(L.NET.log)
        try:
            handler._run_periodic_reports_thread = True  # noqa: SLF001
            handler._simple_periodic_reports_send_loop()  # noqa: SLF001
        finally:
            pr.time, pr.intervaltimer.IntervalTimer = saved
        out = self.findings
        seen = set()
        for e in L.NET.log[log0:]:
            if e.netloc != self.sink or e.action is None:
                continue
            name, report = parse_notification(self.mdib.data_model, e.request)
            if name not in PERIODIC_REPORTS or report is None:
                continue
            if report.MdibVersion not in self.snaps or (report.SequenceId, report.InstanceId) != self.snaps[report.MdibVersion]['vg'][1:]:
                out.append((f'{P}/periodic-report/version-group', f'{name} carries MdibVersion {report.MdibVersion} '
                                                                  f'{report.SequenceId} {report.InstanceId}'))
            for _part, source_mds, _mod, kind, handle, content, descr_handle in report_items(name, report):
                seen.add((kind, handle))
                versions = stored.get((kind, handle), [])
                if not any(self.snaps[v][kind].get(handle) == content for v in versions if v in self.snaps):
                    out.append((f'{P}/periodic-report/state-of-no-stored-version/{name}',
                                f'{name}: {kind} {handle} equals none of the versions {versions} it was stored for'))
                mds = self.snaps[max(self.snaps)]['mds'].get(descr_handle)
                if source_mds is not None and mds is not None and source_mds != mds:
                    out.append((f'{P}/wrong-source-mds/{name}', f'{name}: SourceMds={source_mds}, {handle} belongs to {mds}'))
        if set(stored) - seen:
            out.append((f'{P}/periodic-report/stored-state-not-sent', f'{sorted(set(stored) - seen)[:4]} were stored but '
                                                                      f'not part of the periodic reports'))
        for what, msg in L.NET.schema_problems:
            out.append((f'{P}/schema-invalid/{what.split("/")[-1].split(" ")[-1]}', f'periodic: {what}: {msg}'[:400]))
        del L.NET.schema_problems[:]
        return bool(stored)


def run_reports(case):
    r = Runner(case)
    sent_periodic = False
    try:
        for what, msg in L.NET.schema_problems:  # start-up traffic: metadata, subscribe
            r.findings.append((f'{P}/schema-invalid/{what.split("/")[-1].split(" ")[-1]}', f'start-up: {what}: {msg}'[:400]))
        del L.NET.schema_problems[:]
        for op in case['prog']:
            r.step(op)
            if r.findings:
                break
        if not r.findings and r.periodic is not None:
            sent_periodic = r.run_periodic_iteration()
    finally:
        r.close()
    return r.findings, (len(r.kinds) >= 2 and r.rich), r.kinds, sent_periodic


def st_reports_case():
    def for_fixture(fx):
        inv = MP.inventory(fx)
        return st.fixed_dictionaries({'fixture': st.just(fx), 'async': st.booleans(), 'periodic': st.booleans(),
                                      'prog': MP.st_program(inv, 1, 12)})
    return st.sampled_from(FIXTURES).flatmap(for_fixture)


def reports_case(ctx, case):
    findings, nontrivial, kinds, sent_periodic = run_reports(case)
    ctx.case(case, nontrivial, 'reports', classes=(case['fixture'], 'async' if case['async'] else 'sync') + (
        ('periodic-store',) if case.get('periodic') else ()) + (('periodic-sent',) if sent_periodic else ()) + tuple(kinds))
    return findings


# ------------------------------------------------------------------------------------------------- part: order
def run_order(case, default='continue'):
    from vf.props import c01
    c01.park_role_workers()
    L.reset_network()
    W.quiet_logging()
    inv = MP.inventory(case['fixture'])
    world = W.World(W.fixture(case['fixture']), async_mgr=case['async'])
    findings = []
    sched = S.Sched(case.get('choices', ()), default=default)
    mdib = world.mdib
    saved = [(mdib, 'mdib_lock', mdib.mdib_lock), (mdib, '_tr_lock', mdib._tr_lock)]  # noqa: SLF001
    tables = []
    try:
        consumers = [world.add_consumer(init_mdib=False)[0] for _ in range(case.get('subscribers', 1))]
        sinks = [c[2].netloc for c in world.consumers]
        snaps = {mdib.mdib_version: snapshot(mdib)}

        def record(_lock):  # the committing task still holds mdib_lock
            if mdib.mdib_version not in snaps:
                snaps[mdib.mdib_version] = snapshot(mdib)
        v_start = mdib.mdib_version
        mdib.mdib_lock = S.SchedLock(sched, 'mdib_lock', on_release=record)
        mdib._tr_lock = S.SchedLock(sched, 'tr_lock', reentrant=False, yield_when_free=False,  # noqa: SLF001
                                    yield_after_release=False)
        if not case['async']:
            # (the async manager hands the notifications to its event-loop thread while it holds this lock)
            for mgr in world.provider._subscriptions_managers.values():  # noqa: SLF001
                table = mgr._subscriptions  # noqa: SLF001
                tables.append((table, table._lock))  # noqa: SLF001
                _set_table_lock(table, S.SchedLock(sched, 'subscriptions.lock'))
        commits = []

        def writer(ops):
            interp = MP.Interp(mdib, inv, provider=world.provider)

            def body():
                for op in ops:
                    try:
                        interp.run(op)
                    except Exception as ex:  # noqa: BLE001
                        if not R.exc_in_library(ex):
                            raise
                    commits.append((sched.current().name, mdib.mdib_version))
            return body
        for i, ops in enumerate(case['writers']):
            sched.spawn(f'w{i}', writer(ops))
        log0 = len(L.NET.log)
        sched.run()
        for t in sched.tasks:
            if t.exc is not None:
                raise t.exc
        data_model = mdib.data_model
        for sink in sinks:
            last = None
            for e in L.NET.log[log0:]:
                if e.netloc != sink or e.action is None:
                    continue
                name = e.action.split('/')[-1]
                if name not in ORDERED and name != 'Waveform':
                    continue
                root = etree.fromstring(e.request)
                body = root.find(f'{{{S12}}}Body')
                v = int(body[0].get('MdibVersion', '0'))
                if last is not None and v < last[0]:
                    findings.append((f'{P}/order/version-decreases/{"async" if case["async"] else "sync"}',
                                     f'subscriber {sink} received {name} v{v} after {last[1]} v{last[0]}'))
                    break
                last = (v, name)
            if not findings:
                # truthfulness under concurrency: every report equals the snapshot of the version it states
                found, _rich = judge_reports([e for e in L.NET.log[log0:] if e.netloc == sink], snaps, v_start,
                                             mdib.mdib_version, data_model, f'writers {R.short(case["writers"], 200)}',
                                             'concurrent')
                findings += [(sig.replace(f'{P}/', f'{P}/order/', 1), detail) for sig, detail in found]
        _ = consumers
    finally:
        for obj, name, value in saved:
            setattr(obj, name, value)
        for table, lock in tables:
            _set_table_lock(table, lock)
        world.close()
    switches = sum(1 for a, b in zip(sched.trace, sched.trace[1:]) if a[0] != b[0] and b[1] != 'start')
    info = {'taken': list(sched.taken), 'branching': list(sched.branching), 'switches': switches}
    return findings, info


def _set_table_lock(table, lock):
    table._lock = lock  # noqa: SLF001
    for value in vars(table).values():
        if hasattr(value, 'set_lock'):
            value.set_lock(lock)


def st_order_scenario(max_writers=3, max_tx=3):
    def for_fixture(fx):
        inv = MP.inventory(fx)
        op = MP.st_op(inv, descriptor_ops=True, context_ops=True, multi=False, kw_hold=False, aborts=False)
        # waveforms are the reports with the highest rate: every third scenario has a writer that only sends them
        rt = MP.st_op(inv, kinds=('rt',), descriptor_ops=False, context_ops=False, multi=False, kw_hold=False,
                      aborts=False).filter(lambda o: o[0] == 'state')
        any_writer = st.lists(op, min_size=1, max_size=max_tx)
        writers = st.one_of(
            st.lists(any_writer, min_size=2, max_size=max_writers),
            st.lists(any_writer, min_size=2, max_size=max_writers),
            st.tuples(st.lists(rt, min_size=1, max_size=max_tx), st.lists(any_writer, min_size=1, max_size=max_writers - 1)).map(
                lambda t: [t[0], *t[1]]))
        return st.fixed_dictionaries({
            'fixture': st.just(fx), 'async': st.booleans(), 'subscribers': st.sampled_from([1, 1, 2]),
            'writers': writers})
    return st.sampled_from(FIXTURES[:1]).flatmap(for_fixture)


def order_case(ctx, case):
    findings, info = run_order(case)
    key = dict(case, choices=info['taken'])
    ctx.case(key, info['switches'] >= 2, 'order', classes=('async' if case['async'] else 'sync', f'writers={len(case["writers"])}'))
    return findings


def shard_order_dfs(ctx, seed, n, max_schedules):
    from hypothesis import HealthCheck, Phase, given, settings
    from hypothesis import seed as hseed
    got = []

    @hseed(seed)
    @settings(max_examples=n, database=None, deadline=None, phases=[Phase.generate], suppress_health_check=list(HealthCheck))
    @given(st_order_scenario(max_writers=2, max_tx=2))
    def collect(s):
        got.append(s)
    collect()
    for scenario in got[:n]:
        choices, count, complete = [], 0, False
        while choices is not None and count < max_schedules and not ctx.out_of_budget():
            findings, info = run_order(dict(scenario, choices=choices), default='first')
            count += 1
            ctx.case(dict(scenario, choices=info['taken']), info['switches'] >= 2, 'order-dfs',
                     classes=('async' if scenario['async'] else 'sync',))
            for sig, detail in findings:
                ctx.finding(sig, detail, dict(scenario, choices=info['taken']), 'order-dfs')
            choices = S.next_dfs(info['taken'], info['branching'])
            complete = choices is None
        ctx.count('order-dfs/scenarios-complete' if complete else 'order-dfs/scenarios-truncated')
        ctx.count('order-dfs/schedules', count)


def shard(ctx, which, *args):
    if which == 'slow-subscriber':
        found, went_on = stalled_delivery()
        ctx.case({'probe': 'slow-subscriber', 'stall_s': STALL_S}, True, 'slow-subscriber',
                 classes=('provider-went-on-early' if went_on else 'provider-waited',))
        for sig, detail in found:
            ctx.finding(sig, detail, {'probe': 'slow-subscriber'}, 'slow-subscriber')
    elif which == 'reports':
        R.hyp_campaign(ctx, 'reports', st_reports_case(), lambda c: reports_case(ctx, c), args[0],
                       shrink_s=40 if ctx.tier == 'quick' else 200)
    elif which == 'order':
        strat = st.tuples(st_order_scenario(), st.lists(st.integers(0, 3), max_size=30)).map(lambda t: dict(t[0], choices=t[1]))
        R.hyp_campaign(ctx, 'order', strat, lambda c: order_case(ctx, c), args[0], shrink_s=30 if ctx.tier == 'quick' else 120)
    else:
        shard_order_dfs(ctx, *args)


# ------------------------------------------------------------------------------ part: a subscriber that is slow to answer
STALL_S = 6.5


def stalled_delivery():
    """Asynchronous subscription manager, two subscribers, the first notification to one of them is held back (its peer
    is slow to answer; the event loop is not blocked).  The committing thread may wait for that delivery as long as it
    likes - but if it goes on before the delivery has completed (observed for up to STALL_S seconds of real time), the
    next commit must still not overtake it at that subscriber.  -> (findings, the provider went on early)"""
    import asyncio
    import re
    import time

    from vf.props import c01
    c01.park_role_workers()
    L.reset_network()
    W.quiet_logging()
    world = W.World(W.fixture('mdib_tns.xml'), async_mgr=True)
    out = []
    went_on = False
    try:
        world.add_consumer(init_mdib=False)
        world.add_consumer(init_mdib=False)
        slow = world.consumers[0][2].netloc
        released = threading.Event()
        state = {'stalled': False}
        mdib = world.mdib

        async def stall(client, _path):
            if client.netloc == slow and not state['stalled']:
                state['stalled'] = True
                while not released.is_set():
                    await asyncio.sleep(0.02)
        handle = sorted(s.DescriptorHandle for s in mdib.states.objects if s.is_metric_state
                        and not s.is_realtime_sample_array_metric_state)[0]
        pm = mdib.data_model.pm_types

        def commit(on):
            with mdib.metric_state_transaction() as mgr:
                mgr.get_state(handle).ActivationState = pm.ComponentActivation.ON if on else pm.ComponentActivation.OFF
        log0 = len(L.NET.log)
        L.NET.async_stall = stall
        t = threading.Thread(target=commit, args=(True,), daemon=True)
        t.start()
        t.join(STALL_S)
        went_on = not t.is_alive()
        if went_on and state['stalled']:
            commit(False)  # the provider did not wait for the slow subscriber: here is its next commit
        released.set()
        t.join(30)
        if t.is_alive():
            raise R.HarnessError('the commit did not return after the held-back delivery was released')
        if not went_on or not state['stalled']:
            commit(False)

        def received():
            # (a request enters the wire log when it is handed over, i.e. after the hold: log order = order of arrival)
            return [int(v) for e in L.NET.log[log0:] if e.netloc == slow and e.action
                    and e.action.endswith('EpisodicMetricReport')
                    for v in re.findall(rb'EpisodicMetricReport[^>]*MdibVersion="([0-9]+)"', e.request)]
        for _ in range(250):
            if len(received()) >= 2:  # noqa: PLR2004
                break
            time.sleep(0.02)
        got = received()
        if any(b < a for a, b in zip(got, got[1:])):
            out.append((f'{P}/order/version-decreases/slow-subscriber',
                        f'a subscriber took {STALL_S}s to answer its first notification; it received MdibVersions {got}'))
    finally:
        L.NET.async_stall = None
        world.close()
    return out, went_on


def run(ctx):
    quick = ctx.tier == 'quick'
    jobs = [('reports', 14 if quick else 250)] * 10 + [('order', 10 if quick else 300)] * 4
    jobs += [('order-dfs', ctx.sub_seed('dfs', i) % 2**32, 1 if quick else 6, 60 if quick else 3000) for i in range(2)]
    jobs.insert(0, ('slow-subscriber',))
    R.run_shards(ctx, __name__, 'shard', jobs)


def replay(part, case):
    ctx = R.Ctx(P, 'quick', 0, {})
    if part == 'reports':
        return reports_case(ctx, case)
    if part == 'slow-subscriber':
        return stalled_delivery()[0]
    if part == 'order-dfs':
        return run_order(case, default='first')[0]
    return order_case(ctx, case)
