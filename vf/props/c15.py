"""C15 - discovery datagrams are retransmitted within the SOAP-over-UDP time envelope.

Complete enumeration: both parameter sets x every initial-delay draw x every first-gap draw, with the module's `random`
and `time` replaced by enumerating stand-ins; plus a virtual-clock run of the real send loop (_run_send) with a fake
selector/socket for a sample of the combinations; plus loop-back suppression through the real read-queue loop.
"""
from __future__ import annotations

from vf import run as R
from vf import wsdharness as H

P = 'C15'
META = {
    'level': 'exploration',
    'rule': ('every (parameter set, initial delay draw 0..max_initial_delay_ms, first gap draw min_delay_ms..max_delay_ms) '
             'combination is enumerated (ranges taken from the parameter objects); non-trivial = every combination (each '
             'is a distinct outcome of the two random draws); send-loop part: every 97th combination on a virtual clock; '
             'loop-back part: own message ids fed back through _run_q_read'),
    'exhaustive_parts': ['schedule'],
    'all_exhaustive': True,
    'assumptions': ['_repeated_enqueue_msg obtains its randomness from the module level `random` object and the time '
                    'from the module level `time` object'],
}

TOL = 1e-6


def check_schedule(params_name: str, initial: int, gap: int):
    """Findings for one outcome of the two draws."""
    from sdc11073.wsdiscovery import networkingthread as nt_mod
    params = getattr(nt_mod, params_name)
    nt = H.mk_networking_thread()
    rnd = H.FixedRandom(initial, gap)
    clock = H.SteppingTime(1000.0)
    old_r, old_t = nt_mod.random, nt_mod.time
    nt_mod.random, nt_mod.time = rnd, clock
    try:
        nt._repeated_enqueue_msg('MSG', params)  # noqa: SLF001
    finally:
        nt_mod.random, nt_mod.time = old_r, old_t
    entries = []
    while not nt._send_queue.empty():  # noqa: SLF001
        entries.append(nt._send_queue.get())  # noqa: SLF001
    times = [e.send_time for e in entries]
    out = []
    tag = params_name.split('_')[0].lower()
    if len(times) != 1 + params.repeat:
        out.append((f'{P}/count/{tag}', f'{len(times)} transmissions scheduled, expected {1 + params.repeat}'))
        return out
    if any(e.msg != 'MSG' for e in entries):
        out.append((f'{P}/wrong-message/{tag}', 'a queue entry does not carry the message'))
    first = times[0] - 1000.0
    if first < -TOL or first > params.max_initial_delay_ms / 1000.0 + TOL:
        out.append((f'{P}/initial-delay/{tag}', f'first transmission after {first:.4f}s, allowed 0..'
                                                f'{params.max_initial_delay_ms / 1000.0}s'))
    gaps = [b - a for a, b in zip(times, times[1:])]
    lo, hi, upper = params.min_delay_ms / 1000.0, params.max_delay_ms / 1000.0, params.upper_delay_ms / 1000.0
    if gaps:
        if gaps[0] < lo - TOL or gaps[0] > hi + TOL:
            out.append((f'{P}/first-gap/{tag}', f'first gap {gaps[0]:.4f}s outside [{lo}, {hi}]'))
        for i in range(1, len(gaps)):
            expected = min(2 * gaps[i - 1], upper)
            if abs(gaps[i] - expected) > TOL:
                kind = 'exceeds-upper-delay' if gaps[i] > upper + TOL else 'not-doubled'
                out.append((f'{P}/gap-{kind}/{tag}', f'gap {i + 1} is {gaps[i]:.4f}s, expected min(2 x {gaps[i - 1]:.4f}, '
                                                     f'{upper}) = {expected:.4f}s (draws: initial={initial}ms gap={gap}ms)'))
                break
    return out


def shard_schedule(ctx, params_name, lo, hi):
    from sdc11073.wsdiscovery import networkingthread as nt_mod
    params = getattr(nt_mod, params_name)
    n = 0
    found = {}
    for initial in range(lo, hi):
        for gap in range(params.min_delay_ms, params.max_delay_ms + 1):
            n += 1
            for sig, detail in check_schedule(params_name, initial, gap):
                found.setdefault(sig, (detail, {'params': params_name, 'initial': initial, 'gap': gap}))
    ctx.bulk(n, n, 'schedule', sample={'params': params_name, 'initial': [lo, hi],
                                       'gap': [params.min_delay_ms, params.max_delay_ms]})
    for sig, (detail, case) in found.items():
        ctx.finding(sig, detail, case, 'schedule')


def check_send_loop(params_name: str, initial: int, gap: int):
    """Run the real send loop on a virtual clock and compare real send times with the schedule."""
    from sdc11073.wsdiscovery import networkingthread as nt_mod

    class Msg:
        class created_message:  # noqa: N801
            @staticmethod
            def serialize():
                return b'<x/>'

            class p_msg:  # noqa: N801
                class header_info_block:  # noqa: N801
                    Action = 'a'
                    MessageID = 'm'
        addr, port = '239.255.255.250', 3702

    params = getattr(nt_mod, params_name)
    nt = H.mk_networking_thread()
    clock = H.SteppingTime(1000.0)
    sock = H.FakeSock(clock)
    nt._outbound_selector = H.FakeSelector(sock)  # noqa: SLF001
    old_r, old_t = nt_mod.random, nt_mod.time
    nt_mod.random, nt_mod.time = H.FixedRandom(initial, gap), clock
    out = []
    tag = params_name.split('_')[0].lower()
    try:
        nt._repeated_enqueue_msg(Msg, params)  # noqa: SLF001
        scheduled = sorted(e.send_time for e in nt._send_queue.queue)  # noqa: SLF001
        nt._quit_send_event.set()  # noqa: SLF001  (loop ends when the queue is drained)
        nt._run_send()  # noqa: SLF001
    finally:
        nt_mod.random, nt_mod.time = old_r, old_t
    sent = [t for t, _d, _a in sock.sent]
    if len(sent) != 1 + params.repeat:
        out.append((f'{P}/send-loop-count/{tag}', f'{len(sent)} datagrams sent, expected {1 + params.repeat}'))
        return out
    for i, (s, t) in enumerate(zip(scheduled, sent)):
        if t < s - TOL:
            out.append((f'{P}/send-loop-early/{tag}', f'datagram {i + 1} sent at {t:.4f}, scheduled {s:.4f}'))
            break
        if t > s + 0.0101:
            out.append((f'{P}/send-loop-late/{tag}', f'datagram {i + 1} sent {t - s:.4f}s after its scheduled time '
                                                     f'(documented raster 10 ms)'))
            break
    return out


def shard_send_loop(ctx, params_name, start, step):
    from sdc11073.wsdiscovery import networkingthread as nt_mod
    params = getattr(nt_mod, params_name)
    combos = [(i, g) for i in range(0, params.max_initial_delay_ms + 1)
              for g in range(params.min_delay_ms, params.max_delay_ms + 1)]
    for initial, gap in combos[start::step]:
        case = {'params': params_name, 'initial': initial, 'gap': gap}
        ctx.case(case, True, 'send_loop')
        for sig, detail in check_send_loop(params_name, initial, gap):
            ctx.finding(sig, detail, case, 'send_loop')


def check_multi_send(msgs):
    """Several messages in flight at once: msgs = [[params name, hand-over time in ms after start, initial draw, gap draw]].
    The real send loop runs on a stepping clock; messages are handed over when the clock has reached their time.  Every
    message keeps its own envelope: 1 + repeat transmissions, each no earlier than scheduled and within the 10 ms raster."""
    from sdc11073.wsdiscovery import networkingthread as nt_mod
    from sdc11073.wsdiscovery import wsdimpl
    from sdc11073.xml_types import wsd_types
    from sdc11073.xml_types.addressing_types import HeaderInformationBlock

    def mk(n):
        payload = wsd_types.ProbeType()
        inf = HeaderInformationBlock(action=payload.action, addr_to='urn:docs-oasis-open-org:ws-dd:ns:discovery:2009:01',
                                     message_id=f'urn:uuid:00000000-0000-0000-0000-{n:012d}')
        return wsdimpl._mk_wsd_soap_message(inf, payload)  # noqa: SLF001

    nt = H.mk_networking_thread()
    rnd = H.FixedRandom()
    pending = sorted(([m[1], i, m] for i, m in enumerate(msgs)), key=lambda x: (x[0], x[1]))
    handed = {}  # index -> hand-over time

    class Clock(H.SteppingTime):
        reads = 0

        def sleep(self, dt):
            self.reads = 0
            super().sleep(dt)
            hand_over()

        def time(self):
            # a loop that waits by other means than this module's sleep (e.g. on an event with a time-out) would never
            # see time pass here: after many reads without a sleep every further read lets 10 ms pass
            self.reads += 1
            if self.reads > 200:  # noqa: PLR2004
                self.now += 0.01
                hand_over()
            return self.now

    clock = Clock(1000.0)

    def hand_over():
        while pending and 1000.0 + pending[0][0] / 1000.0 <= clock.now + 1e-9:
            _at, i, (pname, _a, initial, gap) = pending.pop(0)
            rnd.values.extend([initial, gap])
            handed[i] = clock.now
            nt.add_outbound_message(mk(i + 1), '239.255.255.250', 3702, getattr(nt_mod, pname))
        if not pending:
            nt._quit_send_event.set()  # noqa: SLF001  (the loop ends when everything handed over has been sent)

    sock = H.FakeSock(clock)
    nt._outbound_selector = H.FakeSelector(sock)  # noqa: SLF001
    old_r, old_t = nt_mod.random, nt_mod.time
    nt_mod.random, nt_mod.time = rnd, clock
    try:
        hand_over()
        if pending:
            nt._quit_send_event.clear()  # noqa: SLF001
        nt._run_send()  # noqa: SLF001
    finally:
        nt_mod.random, nt_mod.time = old_r, old_t
    out = []
    # (messages are handed over at the end of a sleep of the loop, so an idle sleep never delays a queued message here)
    raster = nt_mod.SEND_LOOP_BUSY_SLEEP + 1e-4
    for i, (pname, _at, initial, gap) in enumerate(msgs):
        params = getattr(nt_mod, pname)
        marker = f'00000000-0000-0000-0000-{i + 1:012d}'.encode()
        sent = [t for t, data, _a in sock.sent if marker in data]
        if len(sent) != 1 + params.repeat:
            out.append((f'{P}/multi/count', f'message {i} of {msgs}: {len(sent)} transmissions, expected {1 + params.repeat}'))
            continue
        initial = min(max(initial, 0), params.max_initial_delay_ms)
        delta = min(max(gap, params.min_delay_ms), params.max_delay_ms - 1) / 1000.0
        t_sched = handed[i] + initial / 1000.0
        scheduled = [t_sched]
        for _ in range(params.repeat):
            t_sched += delta
            scheduled.append(t_sched)
            delta = min(2 * delta, params.upper_delay_ms / 1000.0)
        for k, (want, got) in enumerate(zip(scheduled, sent)):
            if got < want - TOL:
                out.append((f'{P}/multi/early', f'message {i} of {msgs}: transmission {k + 1} at +{got - handed[i]:.4f}s, '
                                                f'envelope says +{want - handed[i]:.4f}s'))
                break
            if got > want + raster:
                out.append((f'{P}/multi/late', f'message {i} of {msgs}: transmission {k + 1} at +{got - handed[i]:.4f}s, '
                                               f'envelope says +{want - handed[i]:.4f}s (raster {raster:.3f}s)'))
                break
    return out


def st_multi():
    from hypothesis import strategies as st
    one = st.tuples(st.sampled_from(['UNICAST_REPEAT_PARAMS', 'MULTICAST_REPEAT_PARAMS']), st.integers(0, 1500),
                    st.integers(0, 500), st.integers(50, 250)).map(list)
    return st.lists(one, min_size=2, max_size=4).map(lambda ms: [[ms[0][0], 0, *ms[0][2:]], *ms[1:]])


def multi_case(ctx, msgs):
    ctx.case(msgs, True, 'multi', classes=(f'messages={len(msgs)}',))
    return check_multi_send(msgs)


def shard_multi(ctx, n):
    import logging
    logging.disable(logging.CRITICAL)
    R.hyp_campaign(ctx, 'multi', st_multi(), lambda m: multi_case(ctx, m), n)


def check_loopback(n_msgs: int):
    """Own outbound messages that multicast loops back must not be dispatched; foreign ones must be."""
    from sdc11073.wsdiscovery import networkingthread as nt_mod
    from sdc11073.wsdiscovery import wsdimpl
    from sdc11073.xml_types import wsd_types
    from sdc11073.xml_types.addressing_types import HeaderInformationBlock

    class Wsd:
        def __init__(self):
            self.got = []

        def handle_received_message(self, received_message, addr):  # noqa: ARG002
            self.got.append(received_message.p_msg.header_info_block.MessageID)

    wsd = Wsd()
    nt = H.mk_networking_thread(wsd)
    own, foreign, datagrams = [], [], []
    for i in range(n_msgs):
        for target in (own, foreign):
            payload = wsd_types.ProbeType()
            inf = HeaderInformationBlock(action=payload.action, addr_to='urn:docs-oasis-open-org:ws-dd:ns:discovery:2009:01',
                                         message_id=f'urn:uuid:00000000-0000-0000-0000-{len(own) + len(foreign) + 1:012d}')
            msg = wsdimpl._mk_wsd_soap_message(inf, payload)  # noqa: SLF001
            target.append(msg)
            _ = i
    for msg in own:
        nt.add_outbound_message(msg, '239.255.255.250', 3702, nt_mod.UNICAST_REPEAT_PARAMS)
    for msg in own + foreign:
        datagrams.append((('127.0.0.1', 3702), msg.serialize()))
    H.run_q_read(nt, datagrams)
    out = []
    own_ids = {m.p_msg.header_info_block.MessageID for m in own}
    foreign_ids = [m.p_msg.header_info_block.MessageID for m in foreign]
    leaked = [m for m in wsd.got if m in own_ids]
    if leaked:
        out.append((f'{P}/own-message-dispatched', f'{len(leaked)} of {len(own)} own messages were dispatched when looped '
                                                   f'back: {leaked[:2]}'))
    if sorted(m for m in wsd.got if m not in own_ids) != sorted(foreign_ids):
        out.append((f'{P}/foreign-message-lost', f'{len(foreign_ids)} foreign messages fed, '
                                                 f'{len([m for m in wsd.got if m not in own_ids])} dispatched'))
    return out


def check_loopback_interleaved(prefill: int, n_msgs: int):
    """The node has already seen `prefill` foreign message ids (its memory holds 200); then, n times: it sends a message
    itself, a new foreign message arrives, and multicast loops the own message back.  The own message is never dispatched,
    every foreign one exactly once."""
    from sdc11073.wsdiscovery import networkingthread as nt_mod
    from sdc11073.wsdiscovery import wsdimpl
    from sdc11073.xml_types import wsd_types
    from sdc11073.xml_types.addressing_types import HeaderInformationBlock

    class Wsd:
        def __init__(self):
            self.got = []

        def handle_received_message(self, received_message, addr):  # noqa: ARG002
            self.got.append(received_message.p_msg.header_info_block.MessageID)

    def mk(n):
        payload = wsd_types.ProbeType()
        inf = HeaderInformationBlock(action=payload.action, addr_to='urn:docs-oasis-open-org:ws-dd:ns:discovery:2009:01',
                                     message_id=f'urn:uuid:00000000-0000-0000-0000-{n:012d}')
        return wsdimpl._mk_wsd_soap_message(inf, payload)  # noqa: SLF001

    wsd = Wsd()
    nt = H.mk_networking_thread(wsd)
    H.run_q_read(nt, [(('10.0.0.1', 3702), mk(100_000 + k).serialize()) for k in range(prefill)])
    out = []
    if len(wsd.got) != prefill:
        out.append((f'{P}/foreign-message-lost', f'{prefill} foreign messages fed, {len(wsd.got)} dispatched'))
    for i in range(n_msgs):
        own, foreign = mk(2 * i + 1), mk(2 * i + 2)
        own_id, foreign_id = own.p_msg.header_info_block.MessageID, foreign.p_msg.header_info_block.MessageID
        del wsd.got[:]
        nt.add_outbound_message(own, '239.255.255.250', 3702, nt_mod.MULTICAST_REPEAT_PARAMS)
        H.run_q_read(nt, [(('10.0.0.1', 3702), foreign.serialize()), (('127.0.0.1', 3702), own.serialize()),
                          (('127.0.0.1', 3702), own.serialize())])
        if own_id in wsd.got:
            out.append((f'{P}/own-message-dispatched/memory-{"full" if prefill >= 200 else "not-full"}',  # noqa: PLR2004
                        f'after {prefill} foreign ids: own message {i} was dispatched {wsd.got.count(own_id)} time(s) when '
                        f'looped back after one new foreign message'))
            break
        if wsd.got.count(foreign_id) != 1:
            out.append((f'{P}/foreign-message-lost', f'foreign message dispatched {wsd.got.count(foreign_id)} times'))
            break
    return out


def check_loopback_with_faults(params_name: str, faults: tuple):
    """The real send loop with transient send errors at the given transmission indices; every datagram that did leave
    the node is looped back (multicast) into the real read loop together with a foreign message."""
    from sdc11073.wsdiscovery import networkingthread as nt_mod
    from sdc11073.wsdiscovery import wsdimpl
    from sdc11073.xml_types import wsd_types
    from sdc11073.xml_types.addressing_types import HeaderInformationBlock

    class Wsd:
        def __init__(self):
            self.got = []

        def handle_received_message(self, received_message, addr):  # noqa: ARG002
            self.got.append(received_message.p_msg.header_info_block.MessageID)

    class FaultySock(H.FakeSock):
        def __init__(self, clock):
            super().__init__(clock)
            self.attempts = 0

        def sendto(self, data, addr):
            self.attempts += 1
            if self.attempts - 1 in faults:
                raise OSError('transient send error (injected)')
            super().sendto(data, addr)

    def mk(n):
        payload = wsd_types.ProbeType()
        inf = HeaderInformationBlock(action=payload.action, addr_to='urn:docs-oasis-open-org:ws-dd:ns:discovery:2009:01',
                                     message_id=f'urn:uuid:00000000-0000-0000-0000-{n:012d}')
        return wsdimpl._mk_wsd_soap_message(inf, payload)  # noqa: SLF001

    params = getattr(nt_mod, params_name)
    wsd = Wsd()
    nt = H.mk_networking_thread(wsd)
    clock = H.SteppingTime(1000.0)
    sock = FaultySock(clock)
    nt._outbound_selector = H.FakeSelector(sock)  # noqa: SLF001
    old_r, old_t = nt_mod.random, nt_mod.time
    nt_mod.random, nt_mod.time = H.FixedRandom(0, params.min_delay_ms), clock
    own, foreign = mk(1), mk(2)
    out = []
    tag = params_name.split('_')[0].lower()
    try:
        nt.add_outbound_message(own, '239.255.255.250', 3702, params)
        nt._quit_send_event.set()  # noqa: SLF001
        try:
            nt._run_send()  # noqa: SLF001
        except OSError as ex:
            return [(f'{P}/send-error-ends-send-loop/{tag}', f'faults at transmissions {faults}: {ex}')]
    finally:
        nt_mod.random, nt_mod.time = old_r, old_t
    if sock.attempts != 1 + params.repeat:
        out.append((f'{P}/send-fault-changes-count/{tag}', f'faults at {faults}: {sock.attempts} transmission attempts, '
                                                           f'expected {1 + params.repeat}'))
    datagrams = [(('127.0.0.1', 3702), data) for _t, data, _a in sock.sent]
    datagrams.insert(len(datagrams) // 2, (('10.0.0.1', 3702), foreign.serialize()))
    H.run_q_read(nt, datagrams)
    own_id, foreign_id = own.p_msg.header_info_block.MessageID, foreign.p_msg.header_info_block.MessageID
    if own_id in wsd.got:
        out.append((f'{P}/own-message-dispatched/after-send-fault/{tag}',
                    f'send errors at transmissions {faults}: the looped-back own message was dispatched '
                    f'{wsd.got.count(own_id)} time(s)'))
    if wsd.got.count(foreign_id) != 1:
        out.append((f'{P}/foreign-message-lost/{tag}', f'foreign message dispatched {wsd.got.count(foreign_id)} times'))
    return out


def run(ctx):
    import logging
    logging.disable(logging.CRITICAL)
    from sdc11073.wsdiscovery import networkingthread as nt_mod
    jobs = []
    for name in ('UNICAST_REPEAT_PARAMS', 'MULTICAST_REPEAT_PARAMS'):
        top = getattr(nt_mod, name).max_initial_delay_ms + 1
        step = max(top // 8, 1)
        for lo in range(0, top, step):
            jobs.append((name, lo, min(top, lo + step)))
    R.run_shards(ctx, __name__, 'shard_schedule', jobs)
    ctx.exhaustive_parts.append('schedule')
    stride = 97 if ctx.tier == 'quick' else 7
    R.run_shards(ctx, __name__, 'shard_send_loop',
                 [(name, s, stride * 4) for name in ('UNICAST_REPEAT_PARAMS', 'MULTICAST_REPEAT_PARAMS')
                  for s in (0, stride, 2 * stride, 3 * stride)])
    R.run_shards(ctx, __name__, 'shard_multi', [(40 if ctx.tier == 'quick' else 1500,)] * 8)
    import itertools
    for name in ('UNICAST_REPEAT_PARAMS', 'MULTICAST_REPEAT_PARAMS'):
        n_tx = 1 + getattr(nt_mod, name).repeat
        for k in range(n_tx + 1):
            for faults in itertools.combinations(range(n_tx), k):
                case = {'params': name, 'faults': list(faults)}
                ctx.case(case, bool(faults) and len(faults) < n_tx, 'loopback_faults')
                for sig, detail in check_loopback_with_faults(name, tuple(faults)):
                    ctx.finding(sig, detail, case, 'loopback_faults')
    ctx.exhaustive_parts.append('loopback_faults: every subset of failing transmissions, both parameter sets')
    for prefill in (0, 150, 199, 200, 201, 260, 450):
        case = {'prefill': prefill, 'n_msgs': 3}
        ctx.case(case, prefill >= 199, 'loopback_interleaved')  # noqa: PLR2004
        for sig, detail in check_loopback_interleaved(prefill, 3):
            ctx.finding(sig, detail, case, 'loopback_interleaved')
    for n in (1, 5, 60):  # up to 120 own ids: inside the 200 ids the node remembers
        case = {'n_msgs': n}
        ctx.case(case, True, 'loopback')
        for sig, detail in check_loopback(n):
            ctx.finding(sig, detail, case, 'loopback')


def replay(part, case):
    if part == 'multi':
        return check_multi_send([list(m) for m in case])
    if part == 'loopback_interleaved':
        return check_loopback_interleaved(case['prefill'], case['n_msgs'])
    if part == 'loopback_faults':
        return check_loopback_with_faults(case['params'], tuple(case['faults']))
    if part == 'schedule':
        return check_schedule(case['params'], case['initial'], case['gap'])
    if part == 'send_loop':
        return check_send_loop(case['params'], case['initial'], case['gap'])
    return check_loopback(case['n_msgs'])
