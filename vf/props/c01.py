"""C01 - the consumer MDIB is an exact mirror of the provider MDIB after any report history.

A provider (with the tutorial role providers) and a consumer run in-process over the loop-back transport; notifications
are delivered synchronously, so after every provider operation the world is quiescent.  After every prefix of a
generated MDIB program the canonical forms of both MDIBs are compared, and the consumer observables fired during the
operation are compared with the before/after diff of the consumer MDIB.
The same runner serves C11 (lookup audits on both sides after every step).
"""
from __future__ import annotations

from vf import canon as C
from vf import loopback as L
from vf import run as R
from vf import world as W
from vf.gen import mdibprog as MP

P = 'C01'
META = {
    'level': 'exploration',
    'rule': ('MDIB programs (1-25 ops; metric, alert, component, operational, context, real-time sample, descriptor '
             'create/update/delete/re-create, multi-operation transactions, location change; classic and entity '
             'interface) on tests/mdib_two_mds.xml (quick) and 70041_MDIB_Final.xml (thorough), sync and async '
             'subscription manager; non-trivial = the program applied >= 2 different transaction kinds and >= 1 of '
             '{descriptor create/delete/re-create, context association change, multi}; distinct by program'),
    'assumptions': ['in two of three cases notifications are processed in the delivering thread (RequestDispatcher); in the '
                    'third the consumer uses its default deferred dispatcher and the comparison waits until its worker '
                    'has handled everything queued so far',
                    'the tutorial AlertSystemStateMaintainer worker is parked (its periodic self check would commit '
                    'transactions at wall-clock times)'],
}

OBSERVABLES = ('metrics_by_handle', 'alert_by_handle', 'component_by_handle', 'context_by_handle',
               'operation_by_handle', 'waveform_by_handle', 'new_descriptors_by_handle',
               'updated_descriptors_by_handle', 'deleted_descriptors_by_handle', 'deleted_states_by_handle',
               'description_modifications')


def park_role_workers():
    from tutorial.productandroles import alarmprovider
    alarmprovider.AlertSystemStateMaintainer.WORKER_THREAD_INTERVAL = 36000.0


def entity_snapshot(mdib) -> dict:
    """{('e', descriptor handle): (descriptor canon, single state canon), ('c', ctx state handle): canon}"""
    out = {}
    states = {s.DescriptorHandle: s for s in mdib.states.objects}
    for d in mdib.descriptions.objects:
        s = states.get(d.Handle)
        out[('e', d.Handle)] = (d.parent_handle, C.canon(d), C.canon(s) if s is not None else None)
    for h, s in states.items():
        if ('e', h) not in out:
            out[('e', h)] = (None, None, C.canon(s))
    for s in mdib.context_states.objects:
        out[('c', s.Handle)] = C.canon(s)
    return out


class PairRunner:
    def __init__(self, fixture: str, async_mgr: bool = False, prop: str = P, check_notifications: bool = True,
                 instance_id: int | None = 1, deferred: bool = False):
        from sdc11073 import observableproperties as properties
        park_role_workers()
        L.reset_network()
        self.prop = prop
        self.inv = MP.inventory(fixture)
        self.world = W.World(W.fixture(fixture), async_mgr=async_mgr, instance_id=instance_id)
        self.deferred = deferred
        self.consumer, self.cmdib = self.world.add_consumer(deferred=deferred)
        self.interp = MP.Interp(self.world.mdib, self.inv, provider=self.world.provider)
        self.fired = []
        self.check_notifications = check_notifications
        self.entity_audit = prop == 'C11'  # the entity getters are look-ups as well (audited after structural ops)
        for name in OBSERVABLES:
            properties.strongbind(self.cmdib, **{name: (lambda v, name=name: self.fired.append((name, v)))})
        self.kinds_applied = set()
        self.special = 0

    def close(self):
        self.world.close()

    def drain(self):
        """With the library's default (deferred) dispatcher notifications are handled by a worker thread: wait until it
        has handled everything that was queued before this call (an end marker travels through the same queue)."""
        if not self.deferred:
            return
        import threading
        done = threading.Event()
        dispatcher = self.consumer._services_dispatcher  # noqa: SLF001
        dispatcher._queue.put((lambda _request: done.set(), None, 'vf-drain'))  # noqa: SLF001
        if not done.wait(30):
            raise R.HarnessError('the deferred dispatcher of the consumer did not drain within 30 s')

    # ------------------------------------------------------------------------------------------- oracles
    def mirror_findings(self, op):
        a, b = C.canon_mdib(self.world.mdib), C.canon_mdib(self.cmdib)
        d = C.diff_mdib(a, b)
        if not d:
            return []
        first = str(d[0][0])
        part = first.split('[')[0] + ('.' + first.rsplit('.', 1)[1] if '.' in first else '')
        return [(f'{self.prop}/mirror-differs/{op[0]}/{part}',
                 f'provider vs consumer after {R.short(op, 200)}: {[list(map(str, x)) for x in d[:3]]}')]

    def audit_findings(self, op):
        out = []
        for side, mdib in (('provider', self.world.mdib), ('consumer', self.cmdib)):
            for problem in C.audit_mdib(mdib, side):
                out.append((f'{self.prop}/lookup/{side}/{problem.split("[")[0].split(":")[0]}',
                            f'after {R.short(op, 160)}: {problem}'))
            if self.entity_audit and op[0] in ('init', 'descr_create', 'descr_delete', 'descr_recreate', 'descr_update',
                                               'multi', 'ctx_new', 'ctx_delete', 'set_location'):
                for problem in C.audit_entities(mdib, side):
                    out.append((f'{self.prop}/lookup/{side}/{problem.split("[")[0].split(":")[0]}',
                                f'after {R.short(op, 160)}: {problem}'))
        for name, mgr in self.world.provider._subscriptions_managers.items():  # noqa: SLF001
            for problem in C.audit_table(mgr._subscriptions, f'subscriptions[{name}]'):  # noqa: SLF001
                out.append((f'{self.prop}/lookup/subscriptions', f'after {R.short(op, 160)}: {problem}'))
        return out

    def readd_findings(self):
        """A stored object handed to its table once more is ignored: the table (objects and every look-up) stays as it is."""
        out = []
        for side, mdib in (('provider', self.world.mdib), ('consumer', self.cmdib)):
            for tname in ('descriptions', 'states', 'context_states'):
                table = getattr(mdib, tname)
                stored = list(table.objects)
                for obj in stored[:2] + stored[-1:]:
                    before = [id(o) for o in table.objects]
                    try:
                        table.add_object(obj)
                    except Exception as ex:  # noqa: BLE001
                        if not R.exc_in_library(ex):
                            raise
                        out.append((f'{self.prop}/lookup/{side}/re-add-raises/{tname}',
                                    f'{side}.{tname}.add_object(<an object that is stored>) raises {type(ex).__name__}: {ex}'[:300]))
                    if [id(o) for o in table.objects] != before:
                        out.append((f'{self.prop}/lookup/{side}/re-add-changes-table/{tname}',
                                    f'{side}.{tname}: handing a stored object to add_object changed the stored objects '
                                    f'({len(before)} -> {len(table.objects)})'))
                    for problem in C.audit_table(table, f'{side}.{tname}'):
                        out.append((f'{self.prop}/lookup/{side}/{problem.split("[")[0].split(":")[0]}',
                                    f'after re-adding a stored object: {problem}'))
                    if out:
                        return out
        return out

    def named_entities(self):
        named, deleted_named, created_named = set(), set(), set()
        for name, value in self.fired:
            if value is None:
                continue
            if name == 'description_modifications':
                for part in value.ReportPart:
                    for d in part.Descriptor:
                        named.add(('e', d.Handle))
                    for s in part.State:
                        named.add(('c', s.Handle) if s.is_context_state else ('e', s.DescriptorHandle))
                continue
            if name == 'deleted_states_by_handle':  # {descriptor handle: [states that went with the descriptor]}
                for states in value.values():
                    for st_ in (states if isinstance(states, (list, tuple)) else [states]):
                        named.add(('c', st_.Handle) if st_.is_context_state else ('e', st_.DescriptorHandle))
                continue
            for obj in value.values():
                if getattr(obj, 'is_descriptor_container', False):
                    named.add(('e', obj.Handle))
                    if name == 'deleted_descriptors_by_handle':
                        deleted_named.add(obj.Handle)
                    if name == 'new_descriptors_by_handle':
                        created_named.add(obj.Handle)
                elif obj.is_context_state:
                    named.add(('c', obj.Handle))
                else:
                    named.add(('e', obj.DescriptorHandle))
        return named, deleted_named, created_named

    def notification_findings(self, op, before, after):
        changed = {k for k in before.keys() | after.keys() if before.get(k) != after.get(k)}
        named, deleted_named, created_named = self.named_entities()
        out = []
        missing = changed - named
        extra = named - changed
        if missing:
            k = sorted(missing)[0]
            out.append((f'{self.prop}/notify/changed-not-named/{op[0]}/{"context-state" if k[0] == "c" else "entity"}',
                        f'{R.short(op, 160)} changed {sorted(missing)[:4]} on the consumer but no observable named them '
                        f'(fired: {[n for n, _ in self.fired]})'))
        if extra:
            k = sorted(extra)[0]
            out.append((f'{self.prop}/notify/named-not-changed/{op[0]}/{"context-state" if k[0] == "c" else "entity"}',
                        f'{R.short(op, 160)}: observables named {sorted(extra)[:4]} which did not change'))
        deleted = {k[1] for k in before if k[0] == 'e' and before[k][1] is not None and (
            k not in after or after[k][1] is None)}
        created = {k[1] for k in after if k[0] == 'e' and after[k][1] is not None and (
            k not in before or before[k][1] is None)}
        if deleted - deleted_named:
            out.append((f'{self.prop}/notify/deleted_descriptors_by_handle-silent',
                        f'{R.short(op, 160)}: descriptors {sorted(deleted - deleted_named)[:4]} were deleted on the consumer '
                        f'but deleted_descriptors_by_handle did not name them'))
        if created - created_named:
            out.append((f'{self.prop}/notify/new_descriptors_by_handle-silent',
                        f'{R.short(op, 160)}: descriptors {sorted(created - created_named)[:4]} were created on the consumer '
                        f'but new_descriptors_by_handle did not name them'))
        return out

    # ------------------------------------------------------------------------------------------- driving
    def step(self, op, audits: bool = True):
        before = entity_snapshot(self.cmdib) if self.check_notifications else None
        del self.fired[:]
        try:
            info = self.interp.run(op)
        except Exception as ex:  # noqa: BLE001
            if not R.exc_in_library(ex):
                raise
            info = {'skipped': False, 'raised': ex}
        self.drain()
        findings = []
        if not info.get('skipped') and 'raised' not in info:
            kind = op[0] if op[0] != 'state' else f'state:{op[1]}'
            self.kinds_applied.add(kind)
            if op[0] in ('descr_create', 'descr_delete', 'descr_recreate', 'multi', 'set_location', 'ctx_multi') or (
                    op[0] in ('ctx_new', 'ctx_update') and op[-2]):
                self.special += 1
        findings += self.mirror_findings(op)
        if self.check_notifications and not info.get('skipped'):
            findings += self.notification_findings(op, before, entity_snapshot(self.cmdib))
        if audits:
            findings += self.audit_findings(op)
        return findings, info


def run_program(case, prop=P, stop_at_first=True, check_notifications=True):
    r = PairRunner(case['fixture'], async_mgr=case.get('async', False), prop=prop,
                   check_notifications=check_notifications, instance_id=case.get('instance_id', 1),
                   deferred=case.get('deferred', False))
    findings = []
    raised = set()
    try:
        findings += [(s, 'after initial load: ' + str(d)) for s, d in r.mirror_findings(['init'])]
        if not findings:
            for op in case['prog']:
                f, info = r.step(op)
                if 'raised' in info:
                    raised.add(R.exc_sig(info['raised']))
                findings += f
                if findings and stop_at_first:
                    break
            if prop == 'C11' and not findings:
                findings += r.readd_findings()
    finally:
        r.close()
    nontrivial = len(r.kinds_applied) >= 2 and r.special >= 1
    return findings, nontrivial, r.kinds_applied, raised


def case_fn(ctx, case, prop=P):
    findings, nontrivial, kinds, raised = run_program(case, prop=prop)
    ctx.case(case, nontrivial, 'prog', classes=tuple(kinds) + (('async',) if case.get('async') else ('sync',)) + (
        f'instance_id={case.get("instance_id", 1)}', 'dispatcher=' + ('deferred' if case.get('deferred') else 'immediate')))
    for sig in raised:
        ctx.count(f'op-raised/{sig}')
    return findings


def st_index_biased_ops(inv):
    """Descriptor updates that change indexed attributes (ConditionSignaled, Source) and re-parenting via re-create."""
    from hypothesis import strategies as st
    opts = []
    handles = [h for h, _c, _p in inv.descriptors]
    for h, c, _p in inv.descriptors:
        short = c.split('.')[-1]
        if short == 'AlertSignalDescriptorContainer':
            opts.append(st.tuples(st.just('descr_update'), st.just(h), st.fixed_dictionaries(
                {'cls': st.just(c), 'set': st.fixed_dictionaries({'ConditionSignaled': st.sampled_from(handles[:6])})}),
                MP.IFACE).map(list))
        if short in ('AlertConditionDescriptorContainer', 'LimitAlertConditionDescriptorContainer'):
            opts.append(st.tuples(st.just('descr_update'), st.just(h), st.fixed_dictionaries(
                {'cls': st.just(c), 'set': st.fixed_dictionaries(
                    {'Source': st.one_of(st.lists(st.sampled_from(handles[:6]), max_size=3, unique=True),
                                         st.lists(st.sampled_from(handles[:2]), min_size=2, max_size=3))})}),  # (repeats)
                MP.IFACE).map(list))
    return st.one_of(opts) if opts else None


def shard_programs(ctx, fixture, n, max_ops, prop=P, index_bias=False, async_mgr=False):
    from hypothesis import strategies as st
    inv = MP.inventory(fixture)
    prog = MP.st_program(inv, 1, max_ops, ctx_delete=False)
    if index_bias:
        biased = st_index_biased_ops(inv)
        if biased is not None:
            prog = st.tuples(prog, st.lists(biased, min_size=1, max_size=4), st.integers(0, 10)).map(
                lambda t: (t[0][:t[2]] + t[1] + t[0][t[2]:])[:max_ops + 4])
    strat = st.tuples(prog, st.sampled_from([1, 1, 0, None, 4294967295]), st.sampled_from([False, False, True])).map(
        lambda t: {'fixture': fixture, 'prog': t[0], 'async': async_mgr, 'instance_id': t[1], 'deferred': t[2]})
    R.hyp_campaign(ctx, f'prog:{fixture}:{"async" if async_mgr else "sync"}', strat,
                   lambda c: case_fn(ctx, c, prop), n, shrink_s=30 if ctx.tier == 'quick' else 200)


def run(ctx):
    quick = ctx.tier == 'quick'
    jobs = []
    for i in range(R.NPROC):
        fixture = 'mdib_two_mds.xml' if (quick or i % 4) else '70041_MDIB_Final.xml'
        jobs.append((fixture, 9 if quick else 200, 16 if quick else 40, P, False, bool(i % 2)))
    R.run_shards(ctx, __name__, 'shard_programs', jobs)


def replay_for(prop, case):
    return run_program(case, prop=prop, stop_at_first=False)[0]


def replay(part, case):
    return replay_for(P, case)
