"""C08 - WS-Eventing subscriptions deliver exactly while alive and end cleanly.

Histories of Subscribe / Renew / GetStatus / Unsubscribe / unknown-identifier requests from 1-4 subscribers (real SOAP
requests through the loop-back transport into the provider's dispatcher), provider transactions that produce reports,
virtual-clock advances, housekeeping ticks, delivery faults (HTTP status, refused connection, timeout) and provider
shutdown, for path- and reference-parameter dispatch and the synchronous and asynchronous subscription managers.
A reference model of subscription liveness driven by the same virtual clock decides who must receive what.
"""
from __future__ import annotations

import logging

from hypothesis import strategies as st
from lxml import etree

from vf import canon as C
from vf import loopback as L
from vf import run as R
from vf import world as W

P = 'C08'
META = {
    'level': 'exploration',
    'rule': ('histories (<= 25 steps) over {subscribe, renew, get_status, unsubscribe, unknown-id request, report(kind), '
             'advance_clock, housekeeping tick, set_fault, clear_fault, stop} for 1-4 subscribers x 4 manager variants '
             '(sync/async x path/reference-parameter dispatch), max subscription duration 30 s; non-trivial = a report is '
             'sent after an Unsubscribe / expiry / delivery failure of some subscription while another one is still live; '
             'distinct by history'),
    'assumptions': ['the delivery-failure limit is SubscriptionBase.MAX_NOTIFY_ERRORS',
                    'within 10 ms of the expiry instant either outcome is accepted (remaining_seconds rounds to 10 ms)',
                    'GetStatus / Renew on an unsubscribed or expired but not yet purged subscription may fault or answer'],
}

FIXTURE = 'mdib_two_mds.xml'
MAX_DURATION = 30
WSE = 'http://schemas.xmlsoap.org/ws/2004/08/eventing'
S12 = 'http://www.w3.org/2003/05/soap-envelope'
WSA = 'http://www.w3.org/2005/08/addressing'
ACTIONS = ['EpisodicMetricReport', 'EpisodicAlertReport', 'EpisodicComponentReport', 'EpisodicContextReport',
           'DescriptionModificationReport', 'EpisodicOperationalStateReport']
SDC_NS = 'http://standards.ieee.org/downloads/11073/11073-20701-2018'
VARIANTS = ['sync-path', 'sync-ref', 'async-path', 'async-ref']


def action_uri(name):
    svc = {'EpisodicContextReport': 'ContextService', 'DescriptionModificationReport': 'DescriptionEventService'}.get(
        name, 'StateEventService')
    return f'{SDC_NS}/{svc}/{name}'


def st_history():
    sub = st.integers(0, 3)
    filt = st.lists(st.sampled_from(ACTIONS + ['urn:foreign:action', 'http://example.org/other']), min_size=1, max_size=4,
                    unique=True)
    expires = st.one_of(st.integers(1, 20), st.integers(25, 90))
    step = st.one_of(
        st.tuples(st.just('subscribe'), sub, filt, expires, st.booleans(), st.booleans()).map(list),
        st.tuples(st.just('subscribe'), sub, filt, expires, st.booleans(), st.booleans()).map(list),
        st.tuples(st.just('renew'), sub, st.integers(1, 60)).map(list),
        st.tuples(st.just('get_status'), sub).map(list),
        st.tuples(st.just('unsubscribe'), sub).map(list),
        st.tuples(st.just('unknown_id'), st.sampled_from(['renew', 'get_status', 'unsubscribe'])).map(list),
        st.tuples(st.just('report'), st.sampled_from(ACTIONS[:5])).map(list),
        st.tuples(st.just('report'), st.sampled_from(ACTIONS[:5])).map(list),
        st.tuples(st.just('report'), st.sampled_from(ACTIONS[:5])).map(list),
        st.tuples(st.just('report_unsub'), st.sampled_from(ACTIONS[:3]), st.integers(0, 3)).map(list),
        st.tuples(st.just('advance'), st.sampled_from([0.5, 1, 2, 5, 9, 11, 31])).map(list),
        st.tuples(st.just('tick')).map(list),
        st.tuples(st.just('set_fault'), sub, st.sampled_from(['http500', 'http404', 'refused', 'timeout'])).map(list),
        st.tuples(st.just('clear_fault'), sub).map(list),
    )
    few = ACTIONS[:3]
    common_filter = st.lists(st.sampled_from(few + few + ['urn:foreign:action']), min_size=1, max_size=3, unique=True)
    first = st.lists(st.tuples(st.just('subscribe'), sub, common_filter, st.integers(2, 40),
                               st.booleans(), st.booleans()).map(list), min_size=2, max_size=4)
    report_few = st.tuples(st.just('report'), st.sampled_from(few)).map(list)
    # the situation the property is about: a subscription ends (unsubscribe / delivery failures / expiry) and reports go on
    ending = st.one_of(
        st.tuples(st.tuples(st.just('unsubscribe'), sub).map(list), report_few).map(list),
        st.tuples(st.tuples(st.just('set_fault'), sub, st.sampled_from(['http500', 'http404', 'refused', 'timeout'])).map(list),
                  report_few, report_few, report_few, report_few).map(list),
        st.tuples(st.tuples(st.just('advance'), st.sampled_from([5, 11, 31])).map(list), st.just(['tick']), report_few).map(list))
    body = st.lists(st.one_of(step.map(lambda x: [x]), report_few.map(lambda x: [x]), ending, ending), min_size=2, max_size=16).map(
        lambda blocks: [x for b in blocks for x in b][:24])
    return st.tuples(st.sampled_from(VARIANTS), st.tuples(first, body).map(lambda t: t[0] + t[1]),
                     st.sampled_from([None, True, False]))


class Sink:
    """A subscriber's notification endpoint."""

    def __init__(self):
        self.received = []

    def do_post(self, headers, path, peer_name, request_bytes):  # noqa: ARG002
        self.received.append((path, request_bytes))
        return 202, 'Accepted', b''


class RawClient:
    def __init__(self, netloc):
        self.netloc = netloc
        self._ssl_context = None


class Sub:
    """Reference model of one subscription."""

    def __init__(self, idx, gen):
        self.idx, self.gen = idx, gen
        self.accepted = False
        self.filter = []
        self.expiry = None
        self.granted = None
        self.unsubscribed = False
        self.ended = False
        self.failures = 0
        self.purged = False
        self.manager_address = None
        self.ref_params = []
        self.end_to = False
        self.notify_path = None
        self.end_path = None


class Runner:
    def __init__(self, variant):
        from sdc11073.provider import subscriptionmgr, subscriptionmgr_async
        from vf.props import c01
        c01.park_role_workers()
        L.reset_network()
        W.quiet_logging()
        cls = {'sync-path': subscriptionmgr.PathDispatchingSubscriptionsManager,
               'sync-ref': subscriptionmgr.ReferenceParamSubscriptionsManager,
               'async-path': subscriptionmgr_async.SubscriptionsManagerPathAsync,
               'async-ref': subscriptionmgr_async.SubscriptionsManagerReferenceParamAsync}[variant]
        self.variant = variant
        self.world = W.World(W.fixture(FIXTURE), async_mgr=variant.startswith('async'),
                             sub_mgr_classes={'StateEvent': cls, 'Set': cls}, max_subscription_duration=MAX_DURATION)
        self.vt = self.world.vt
        self.n_threads = self.vt.parked_threads()
        self.vt.wait_parked(2, timeout=5)
        self.n_threads = self.vt.parked_threads()
        self.provider = self.world.provider
        self.mgr = self.provider._subscriptions_managers['StateEvent']  # noqa: SLF001
        self.limit = self.mgr.subscription_cls.MAX_NOTIFY_ERRORS if hasattr(self.mgr, 'subscription_cls') else 1
        self.prov_netloc = self.world.provider_server.netloc
        self.prov_path = f'/{self.provider.path_prefix}/StateEvent'
        self.server = L.FakeHttpServer()
        self.end_server = L.FakeHttpServer()  # every second EndTo endpoint lives on another host:port than NotifyTo
        self.sinks = {}
        self.slots = {}  # subscriber index -> current Sub
        self.all_subs = []
        self.faults = {}
        self.findings = []
        self.nontrivial = False
        self.stopped = False
        import sdc11073.definitions_sdc as defs
        from sdc11073.pysoap.msgfactory import MessageFactory
        self.factory = MessageFactory(defs.SdcV1Definitions, None, logging.getLogger('vf.c08'), validate=False)
        L.NET.interceptor = self._intercept
        self.gen = 0

    # -------------------------------------------------------------------------------------------- transport
    def _intercept(self, entry):
        if entry.netloc not in (self.server.netloc, self.end_server.netloc):
            return None
        key = entry.path.strip('/').split('/')[0]
        fault = self.faults.get(key)
        if fault is None:
            return None
        if fault == 'http500':
            return ('status', 500)
        if fault == 'http404':
            return ('status', 404)
        if fault == 'refused':
            return ('raise', ConnectionRefusedError('injected'))
        return ('raise', TimeoutError('injected'))

    def close(self):
        L.NET.interceptor = None
        if not self.stopped:
            self.world.close()
        self.server.stop()
        self.end_server.stop()

    def post(self, path, message):
        status, _reason, body = L.NET.deliver_post(RawClient(self.prov_netloc), path, message.serialize(validate=False),
                                                   {'Host': self.prov_netloc, 'Accept-Encoding': 'gzip'},
                                                   bypass_interceptor=True)
        root = etree.fromstring(body) if body else None
        is_fault = root is not None and root.find(f'{{{S12}}}Body/{{{S12}}}Fault') is not None
        return status, root, is_fault

    # ------------------------------------------------------------------------------------------------ steps
    def table_scan(self):
        return sorted(s.identifier_uuid.hex for s in self.mgr._subscriptions.objects)  # noqa: SLF001

    def step_subscribe(self, step):
        from sdc11073.xml_types import eventing_types as evt
        from sdc11073.xml_types.addressing_types import HeaderInformationBlock
        _, idx, filt, expires, with_end_to, with_ref = step
        self.gen += 1
        key = f's{idx}g{self.gen}'
        sink = Sink()
        self.server.dispatcher.register_instance(key, sink)
        self.sinks[key] = sink
        req = evt.Subscribe()
        req.Delivery.Mode = f'{WSE}/DeliveryModes/Push'
        req.Delivery.NotifyTo.Address = f'http://{self.server.netloc}/{key}/notify'
        if with_ref:
            ref = etree.Element('{urn:vf}Ident')
            ref.text = key
            req.Delivery.NotifyTo.ReferenceParameters = [ref]
        end_netloc = self.server.netloc
        if with_end_to:
            if self.gen % 2 == 0:
                end_netloc = self.end_server.netloc
                self.end_server.dispatcher.register_instance(key, sink)
            req.init_end_to()
            req.EndTo.Address = f'http://{end_netloc}/{key}/end'
        if expires is not None:
            req.Expires = expires
        req.set_filter(' '.join(action_uri(a) if not a.startswith(('urn:', 'http')) else a for a in filt))
        msg = self.factory.mk_soap_message(HeaderInformationBlock(action=req.action, addr_to=f'http://{self.prov_netloc}{self.prov_path}'),
                                           payload=req)
        t0 = self.vt.monotonic()
        before = self.table_scan()
        status, root, is_fault = self.post(self.prov_path, msg)
        if is_fault or root is None:
            if self.table_scan() != before:
                self.findings.append((f'{P}/rejected-subscribe-changed-table', f'{step}'))
            return
        resp = evt.SubscribeResponse.from_node(root.find(f'{{{S12}}}Body')[0])
        sub = Sub(idx, self.gen)
        sub.key = key
        sub.accepted = True
        sub.filter = [action_uri(a) for a in filt if not a.startswith(('urn:', 'http'))]
        wanted = MAX_DURATION if expires is None else min(expires, MAX_DURATION)
        sub.granted = wanted
        sub.expiry = t0 + wanted
        sub.manager_address = resp.SubscriptionManager.Address
        sub.ref_params = list(resp.SubscriptionManager.ReferenceParameters or [])
        sub.end_to = with_end_to
        sub.end_netloc = end_netloc
        sub.with_ref = with_ref
        got = resp.Expires
        if got is None or got > wanted + 0.005 or abs(got - wanted) > 0.011:
            self.findings.append((f'{P}/granted-expiry/subscribe', f'{step}: granted {got}, requested {expires}, max {MAX_DURATION}'))
        self.slots[idx] = sub
        self.all_subs.append(sub)

    def _manager_request(self, sub, payload):
        from urllib.parse import urlparse

        from sdc11073.xml_types.addressing_types import HeaderInformationBlock
        inf = HeaderInformationBlock(action=payload.action, addr_to=sub.manager_address, reference_parameters=sub.ref_params)
        msg = self.factory.mk_soap_message(inf, payload=payload)
        return self.post(urlparse(sub.manager_address).path, msg)

    def live(self, sub, now=None):
        now = self.vt.monotonic() if now is None else now
        return sub.accepted and not sub.unsubscribed and not sub.ended and not sub.purged and sub.failures < self.limit \
            and now < sub.expiry

    def near_expiry(self, sub):
        return abs(self.vt.monotonic() - sub.expiry) <= 0.011

    def step_renew(self, step):
        from sdc11073.xml_types import eventing_types as evt
        _, idx, expires = step
        sub = self.slots.get(idx)
        if sub is None:
            return
        req = evt.Renew()
        if expires is not None:
            req.Expires = expires
        now = self.vt.monotonic()
        was_live = self.live(sub)
        status, root, is_fault = self._manager_request(sub, req)
        if is_fault or root is None:
            if was_live and not self.near_expiry(sub):
                self.findings.append((f'{P}/renew-of-live-subscription-faulted', f'{step}'))
            return
        if sub.purged:
            self.findings.append((f'{P}/request-for-purged-subscription-answered/renew', f'{step}'))
            return
        resp = evt.RenewResponse.from_node(root.find(f'{{{S12}}}Body')[0])
        wanted = MAX_DURATION if expires is None else min(expires, MAX_DURATION)
        got = resp.Expires
        if got is None or got > wanted + 0.005 or abs(got - wanted) > 0.011:
            self.findings.append((f'{P}/granted-expiry/renew', f'{step}: granted {got}, requested {expires}, max {MAX_DURATION}'))
        # the model follows a successful answer (also for an expired but not yet purged subscription)
        sub.expiry = now + wanted
        sub.granted = wanted

    def step_get_status(self, step):
        from sdc11073.xml_types import eventing_types as evt
        _, idx = step
        sub = self.slots.get(idx)
        if sub is None:
            return
        was_live = self.live(sub)
        status, root, is_fault = self._manager_request(sub, evt.GetStatus())
        if is_fault or root is None:
            if was_live and not self.near_expiry(sub):
                self.findings.append((f'{P}/get_status-of-live-subscription-faulted', f'{step}'))
            return
        if sub.purged:
            self.findings.append((f'{P}/request-for-purged-subscription-answered/get_status', f'{step}'))
            return
        resp = evt.GetStatusResponse.from_node(root.find(f'{{{S12}}}Body')[0])
        remaining = max(sub.expiry - self.vt.monotonic(), 0)
        got = resp.Expires
        if got is None or abs(got - remaining) > 0.011 or got > sub.granted + 0.005:
            self.findings.append((f'{P}/get_status-remaining-time', f'{step}: reported {got}, model remaining {remaining:.3f}'))

    def step_unsubscribe(self, step):
        from sdc11073.xml_types import eventing_types as evt
        _, idx = step
        sub = self.slots.get(idx)
        if sub is None:
            return
        was_live = self.live(sub)
        status, root, is_fault = self._manager_request(sub, evt.Unsubscribe())
        if is_fault:
            if was_live and not self.near_expiry(sub):
                self.findings.append((f'{P}/unsubscribe-of-live-subscription-faulted', f'{step}'))
            return
        if sub.purged:
            self.findings.append((f'{P}/request-for-purged-subscription-answered/unsubscribe', f'{step}'))
            return
        sub.unsubscribed = True

    def step_unknown_id(self, step):
        from sdc11073.xml_types import eventing_types as evt
        from sdc11073.xml_types.addressing_types import HeaderInformationBlock
        _, what = step
        payload = {'renew': evt.Renew, 'get_status': evt.GetStatus, 'unsubscribe': evt.Unsubscribe}[what]()
        ref = etree.Element('{http.local.com}MyDevIdentifier')
        ref.text = 'ffffffffffffffffffffffffffffffff'
        before = self.table_scan()
        model_before = [(s.unsubscribed, s.expiry) for s in self.all_subs]
        inf = HeaderInformationBlock(action=payload.action, addr_to=f'http://{self.prov_netloc}{self.prov_path}',
                                     reference_parameters=[ref] if self.variant.endswith('ref') else None)
        path = self.prov_path + ('' if self.variant.endswith('ref') else '/ffffffffffffffffffffffffffffffff')
        status, root, is_fault = self.post(path, self.factory.mk_soap_message(inf, payload=payload))
        if not is_fault:
            self.findings.append((f'{P}/unknown-identifier-not-faulted/{what}', f'{step}: status {status}'))
        if self.table_scan() != before:
            self.findings.append((f'{P}/unknown-identifier-changed-table/{what}', f'{step}'))
        _ = model_before

    def _commit(self, name):
        mdib = self.world.mdib
        pm = mdib.data_model.pm_types
        if name == 'EpisodicMetricReport':
            h = sorted(s.DescriptorHandle for s in mdib.states.objects if s.is_metric_state
                       and not s.is_realtime_sample_array_metric_state)[0]
            with mdib.metric_state_transaction() as mgr:
                st_ = mgr.get_state(h)
                st_.ActivationState = pm.ComponentActivation.ON if st_.ActivationState != pm.ComponentActivation.ON \
                    else pm.ComponentActivation.OFF
        elif name == 'EpisodicAlertReport':
            h = sorted(s.DescriptorHandle for s in mdib.states.objects if s.is_alert_condition)[0]
            with mdib.alert_state_transaction() as mgr:
                st_ = mgr.get_state(h)
                st_.Presence = not st_.Presence
        elif name == 'EpisodicComponentReport':
            h = sorted(s.DescriptorHandle for s in mdib.states.objects if type(s).__name__ == 'ChannelStateContainer')[0]
            with mdib.component_state_transaction() as mgr:
                st_ = mgr.get_state(h)
                st_.OperatingHours = (st_.OperatingHours or 0) + 1
        elif name == 'EpisodicContextReport':
            d = sorted(x.Handle for x in mdib.descriptions.objects if type(x).__name__ == 'PatientContextDescriptorContainer')[0]
            with mdib.context_state_transaction() as mgr:
                mgr.mk_context_state(d)
        elif name == 'DescriptionModificationReport':
            h = sorted(x.Handle for x in mdib.descriptions.objects if type(x).__name__ == 'NumericMetricDescriptorContainer')[0]
            with mdib.descriptor_transaction() as mgr:
                d = mgr.get_descriptor(h)
                d.SafetyClassification = pm.SafetyClassification.MED_A if d.SafetyClassification != pm.SafetyClassification.MED_A \
                    else pm.SafetyClassification.INF

    def step_report(self, step):
        from sdc11073 import observableproperties as properties
        _, name = step
        log0 = len(L.NET.log)
        now = self.vt.monotonic()
        emitted = []
        cb = lambda value: emitted.append(value[0]) if value is not None else None  # noqa: E731
        properties.strongbind(self.mgr, sent_to_subscribers=cb)
        try:
            self._commit(name)
        except Exception as ex:  # noqa: BLE001
            if not R.exc_in_library(ex):
                raise
            self.findings.append((f'{P}/commit-raises/{R.exc_sig(ex)}', f'{step}: {type(ex).__name__}: {ex}'[:300]))
            return
        finally:
            properties.unbind(self.mgr, sent_to_subscribers=cb)
        posts = [e for e in L.NET.log[log0:] if e.netloc == self.server.netloc]
        # one commit can emit several reports (a descriptor update also reports the state); judge them in emission order
        for uri in emitted:
            expected, dontcare = set(), set()
            for sub in self.all_subs:
                if uri in sub.filter and sub.accepted and not sub.unsubscribed and not sub.ended and not sub.purged \
                        and sub.failures < self.limit:
                    if abs(now - sub.expiry) <= 0.011:
                        dontcare.add(sub.key)
                    elif now < sub.expiry:
                        expected.add(sub.key)
            attempted = {e.path.strip('/').split('/')[0] for e in posts if e.action == uri}
            posts = [e for e in posts if e.action != uri]
            dead_others = [x for x in self.all_subs if uri in x.filter and x.key not in expected and x.key not in dontcare]
            if expected and dead_others:
                self.nontrivial = True
            missing = expected - attempted
            extra = attempted - expected - dontcare
            short = uri.split('/')[-1]
            if missing:
                self.findings.append((f'{P}/live-subscriber-not-notified/{self.variant}',
                                      f'{step}: {sorted(missing)} are live and match {short} but got nothing'))
            if extra:
                why = []
                for sub in self.all_subs:
                    if sub.key in extra:
                        why.append('unsubscribed' if sub.unsubscribed else 'expired' if now >= sub.expiry else
                                   'failed' if sub.failures >= self.limit else 'filter' if uri not in sub.filter else 'ended')
                self.findings.append((f'{P}/notified-although-{why[0] if why else "dead"}/{self.variant}',
                                      f'{step}: {sorted(extra)} received/were sent {short} although {why}'))
            for sub in self.all_subs:
                if sub.key in attempted and self.faults.get(sub.key):
                    sub.failures += 1
                elif sub.key in attempted:
                    sub.failures = 0
        if posts:
            self.findings.append((f'{P}/unannounced-notification/{self.variant}',
                                  f'{step}: posts {[(e.path, e.action) for e in posts][:3]} without sent_to_subscribers'))

    def step_report_unsub(self, step):
        """A report is being delivered; while the first subscriber is served, subscriber j unsubscribes (its request is
        answered by another thread of the HTTP server in real life).  Whatever is sent to j after its Unsubscribe was
        answered violates 'at send time ... has not been unsubscribed'.  (synchronous managers only: they serve the
        subscribers one after the other in the committing thread)"""
        from sdc11073 import observableproperties as properties
        _, name, j = step
        if not self.variant.startswith('sync'):
            return self.step_report(['report', name])
        live = [s_ for s_ in self.slots.values() if s_ is not None and s_.accepted and not s_.unsubscribed and not s_.ended
                and not s_.purged]
        if len(live) < 2:  # noqa: PLR2004
            return self.step_report(['report', name])
        target = live[j % len(live)]
        log0 = len(L.NET.log)
        now = self.vt.monotonic()
        emitted = []
        cb = lambda value: emitted.append(value[0]) if value is not None else None  # noqa: E731
        state = {'fired': False, 'answered_at': None}

        def during_delivery(entry):
            if state['fired'] or entry.netloc != self.server.netloc or not entry.action or 'SubscriptionEnd' in entry.action:
                return
            if entry.path.strip('/').split('/')[0] == target.key:
                return  # (the target itself is being served: wait for another subscriber's turn)
            state['fired'] = True
            L.NET.pre_handle = None
            self.step_unsubscribe(['unsubscribe', target.idx])
            state['answered_at'] = len(L.NET.log)
        expected_before = {s_.key for s_ in live if s_.failures < self.limit and now < s_.expiry - 0.011}
        properties.strongbind(self.mgr, sent_to_subscribers=cb)
        L.NET.pre_handle = during_delivery
        try:
            self._commit(name)
        except Exception as ex:  # noqa: BLE001
            if not R.exc_in_library(ex):
                raise
            self.findings.append((f'{P}/commit-raises/{R.exc_sig(ex)}', f'{step}: {type(ex).__name__}: {ex}'[:300]))
            return None
        finally:
            L.NET.pre_handle = None
            properties.unbind(self.mgr, sent_to_subscribers=cb)
        if state['answered_at'] is not None and target.unsubscribed:
            late = [e for e in L.NET.log[state['answered_at']:] if e.netloc == self.server.netloc and e.action in emitted
                    and e.path.strip('/').split('/')[0] == target.key]
            if late:
                self.nontrivial = True
                self.findings.append((f'{P}/notified-although-unsubscribed/during-send/{self.variant}',
                                      f'{step}: {target.key} unsubscribed while another subscriber was being served and was '
                                      f'sent {late[0].action.split("/")[-1]} after its Unsubscribe had been answered'))
        # bookkeeping of delivery failures as in step_report
        for uri in emitted:
            attempted = {e.path.strip('/').split('/')[0] for e in L.NET.log[log0:] if e.netloc == self.server.netloc
                         and e.action == uri}
            for sub in self.all_subs:
                if sub.key in attempted and self.faults.get(sub.key):
                    sub.failures += 1
                elif sub.key in attempted:
                    sub.failures = 0
        _ = expected_before
        return None

    def step_advance(self, step):
        self.vt.advance(step[1])

    def step_tick(self, step):
        now_wall = self.vt.time()
        ok = self.vt.tick(expected_sleepers=self.n_threads)
        if not ok:
            raise R.HarnessError('housekeeping threads did not park again')
        now = self.vt.monotonic()
        for sub in self.all_subs:
            if sub.purged:
                continue
            if not (now < sub.expiry) or sub.failures >= self.limit or sub.ended:
                sub.purged = True
            elif sub.unsubscribed:
                sub.purged = None  # purge happens >1 s after the unsubscribe; either is fine: re-derived from the table
        table = set(self.table_scan())
        for sub in self.all_subs:
            if sub.purged is None:
                ident = sub.manager_address.rstrip('/').split('/')[-1] if self.variant.endswith('path') else (
                    sub.ref_params[0].text if sub.ref_params else None)
                sub.purged = ident not in table
        _ = now_wall

    def step_set_fault(self, step):
        sub = self.slots.get(step[1])
        if sub is not None:
            self.faults[sub.key] = step[2]

    def step_clear_fault(self, step):
        sub = self.slots.get(step[1])
        if sub is not None:
            self.faults.pop(sub.key, None)

    def stop(self, send_end):
        now = self.vt.monotonic()
        expected = {s.key: s for s in self.all_subs if self.live(s, now) and not self.near_expiry(s)}
        dontcare = {s.key for s in self.all_subs if self.near_expiry(s)}
        log0 = len(L.NET.log)
        self.world.close(send_subscription_end=bool(send_end))
        self.stopped = True
        ends = {}
        for e in L.NET.log[log0:]:
            if e.netloc in (self.server.netloc, self.end_server.netloc) and e.action == f'{WSE}/SubscriptionEnd':
                ends.setdefault(e.path.strip('/').split('/')[0], []).append(e)
        if not send_end:
            if ends:
                self.findings.append((f'{P}/subscription-end-sent-although-switched-off', f'{sorted(ends)}'))
            return
        for key, sub in expected.items():
            got = ends.get(key, [])
            if len(got) != 1:
                self.findings.append((f'{P}/subscription-end-count/{self.variant}',
                                      f'live subscription {key} received {len(got)} SubscriptionEnd messages'))
                continue
            want_path = f'/{key}/end' if sub.end_to else f'/{key}/notify'
            if got[0].path != want_path or got[0].netloc != sub.end_netloc:
                self.findings.append((f'{P}/subscription-end-address/{self.variant}',
                                      f'{key}: SubscriptionEnd sent to {got[0].netloc}{got[0].path}, expected '
                                      f'{sub.end_netloc}{want_path} (EndTo given: {sub.end_to})'))
            root = etree.fromstring(got[0].request)
            refs = [el.text for el in root.find(f'{{{S12}}}Header') if el.get(f'{{{WSA}}}IsReferenceParameter') == 'true']
            want_refs = [key] if sub.with_ref else []
            # an EndTo endpoint was subscribed without reference parameters of its own; the statement does not say
            # whether NotifyTo's parameters may accompany it, so only the NotifyTo case is compared
            if not sub.end_to and sorted(refs) != sorted(want_refs):
                self.findings.append((f'{P}/subscription-end-reference-parameters/{self.variant}',
                                      f'{key}: header reference parameters {refs}, expected {want_refs}'))
        for key in ends:
            if key not in expected and key not in dontcare:
                self.findings.append((f'{P}/subscription-end-to-dead-subscription/{self.variant}', f'{key}'))

    def run(self, steps, send_end):
        for step in steps:
            getattr(self, f'step_{step[0]}')(step)
            problems = C.audit_table(self.mgr._subscriptions, 'subscriptions')  # noqa: SLF001
            if problems:
                self.findings.append((f'{P}/subscription-table-lookup', f'after {step}: {problems[:2]}'))
            if self.findings:
                return self.findings
        if send_end is not None:
            self.stop(send_end)
        return self.findings


def case_fn(ctx, case):
    variant, steps, send_end = case
    r = Runner(variant)
    try:
        findings = r.run(steps, send_end)
    finally:
        r.close()
    ctx.case(case, r.nontrivial, 'history', classes=(variant,) + tuple({s[0] for s in steps}) + (
        (f'stop:{send_end}',) if send_end is not None else ()))
    return findings


def shard(ctx, n):
    R.hyp_campaign(ctx, 'history', st_history(), lambda c: case_fn(ctx, c), n)


def run(ctx):
    R.run_shards(ctx, __name__, 'shard', [(40 if ctx.tier == 'quick' else 500,)] * R.NPROC)


def replay(part, case):
    ctx = R.Ctx(P, 'quick', 0, {})
    variant, steps, send_end = case
    return case_fn(ctx, (variant, steps, send_end))
