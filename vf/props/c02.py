"""C02 - MDIB version counters are monotonic, gap-free and referentially consistent.

Provider-side MDIB programs (no transport): after every operation the snapshots before/after are compared.
"""
from __future__ import annotations

from vf import canon as C
from vf import run as R
from vf import world as W
from vf.gen import mdibprog as MP

P = 'C02'
META = {
    'level': 'exploration',
    'rule': ('MDIB programs of 1-40 ops over all transaction kinds (classic and entity interface, multi-operation '
             'descriptor transactions, delete / re-create, empty transactions) on tests/mdib_two_mds.xml and '
             '70041_MDIB_Final.xml; non-trivial = program contains a multi transaction that applied >= 2 sub-operations '
             'or a re-create of a deleted handle or an aborted transaction; distinct by program'),
    'assumptions': ['a descriptor is always created together with its state (documented assumption of '
                    'DescriptorTransaction.process_transaction)',
                    ],
}

FIXTURES = ['mdib_two_mds.xml', '70041_MDIB_Final.xml']


def snap(mdib) -> dict:
    d = {}
    for x in mdib.descriptions.objects:
        d[x.Handle] = (x.parent_handle, x.DescriptorVersion, C.canon(x, skip_versions=True))
    s = {}
    dup = []
    for x in mdib.states.objects:
        if x is None:
            dup.append('None object in states table')
            continue
        if x.DescriptorHandle in s:
            dup.append(f'two single states for {x.DescriptorHandle}')
        s[x.DescriptorHandle] = (x.DescriptorVersion, x.StateVersion, C.canon(x, skip_versions=True))
    c = {}
    for x in mdib.context_states.objects:
        if x is None:
            dup.append('None object in context_states table')
            continue
        c[x.Handle] = (x.DescriptorVersion, x.StateVersion, C.canon(x, skip_versions=True), x.DescriptorHandle)
    return {'v': mdib.mdib_version, 'd': d, 's': s, 'c': c, 'dup': dup}


class Checker:
    def __init__(self, mdib):
        self.mdib = mdib
        self.hw = {'d': {}, 's': {}, 'c': {}}  # high-water marks per handle, independent of handle_version_lookup
        self.prev = snap(mdib)
        self._mark(self.prev)

    def _mark(self, sn):
        for h, v in sn['d'].items():
            self.hw['d'][h] = max(self.hw['d'].get(h, -1), v[1])
        for h, v in sn['s'].items():
            self.hw['s'][h] = max(self.hw['s'].get(h, -1), v[1])
        for h, v in sn['c'].items():
            self.hw['c'][h] = max(self.hw['c'].get(h, -1), v[1])

    def footprint(self, info, before, after) -> set:
        fp = set(info['touched']) | set(info['created']) | set(info['deleted'])
        for h in list(info['created']) + list(info['deleted']):
            for sn in (before, after):
                if h in sn['d'] and sn['d'][h][0] is not None:
                    fp.add(sn['d'][h][0])
        # context states follow their descriptor; '<location>' stands for every location context state
        for sn in (before, after):
            for sh, v in sn['c'].items():
                if v[3] in fp or '<location>' in info['touched']:
                    fp.add(sh)
        return fp

    def after_op(self, op, info) -> list:
        out = []
        name = op[0]
        before, after = self.prev, snap(self.mdib)
        changed = (before['d'] != after['d'] or before['s'] != after['s'] or before['c'] != after['c'])
        dv = after['v'] - before['v']
        if changed and dv != 1:
            out.append((f'{P}/mdib-version-step/{name}', f'MDIB changed but MdibVersion went {before["v"]} -> {after["v"]}'))
        if not changed and dv != 0:
            out.append((f'{P}/mdib-version-on-noop/{name}', f'nothing changed but MdibVersion went {before["v"]} -> '
                                                           f'{after["v"]}'))
        for problem in after['dup']:
            out.append((f'{P}/table/{name}', problem))
        # per-object monotonicity and "content changed => version increased"
        for key, label in (('d', 'descriptor'), ('s', 'state'), ('c', 'context-state')):
            vi = 1
            for h, new in after[key].items():
                old = before[key].get(h)
                if old is not None:
                    if new[vi] < old[vi]:
                        out.append((f'{P}/version-decreased/{label}/{name}', f'{h}: {old[vi]} -> {new[vi]}'))
                    elif new[vi] == old[vi] and (new[2] != old[2] or (key == 'd' and new[0] != old[0])):
                        d = C.diff(old[2], new[2])
                        out.append((f'{P}/content-changed-version-kept/{label}/{name}',
                                    f'{h}: version stays {new[vi]} but content changed: '
                                    f'{[list(map(str, x)) for x in d[:2]]}'))
                else:
                    mark = self.hw[key].get(h)
                    if mark is not None and new[vi] <= mark:
                        out.append((f'{P}/recreated-version-not-increased/{label}/{name}',
                                    f'{h}: re-created with version {new[vi]}, had {mark} before deletion'))
        for problem in C.referential_problems(self.mdib):
            out.append((f'{P}/referential/{problem.split(":")[0]}/{name}', problem))
        # footprint: everything else is untouched, versions included
        fp = self.footprint(info, before, after)
        fp_states = set(fp)
        for key in ('d', 's', 'c'):
            for h in before[key].keys() | after[key].keys():
                if h in fp or (key == 's' and h in fp_states):
                    continue
                if before[key].get(h) != after[key].get(h):
                    out.append((f'{P}/outside-footprint/{key}/{name}',
                                f'{h} changed although the operation did not address it: '
                                f'{str(before[key].get(h))[:150]} -> {str(after[key].get(h))[:150]}'))
        for problem in C.audit_mdib(self.mdib):
            out.append((f'{P}/lookup/{name}', problem))
        self.prev = after
        self._mark(after)
        return out


def run_program(case, stop_at_first=True):
    import sdc11073.definitions_sdc  # noqa: F401
    from sdc11073.mdib import ProviderMdib
    W.quiet_logging()
    fixture, prog = case['fixture'], case['prog']
    inv = MP.inventory(fixture)
    mdib = ProviderMdib.from_string(W.fixture(fixture))
    interp = MP.Interp(mdib, inv)
    chk = Checker(mdib)
    findings = []
    stats = {'multi2': 0, 'recreate': 0, 'applied': 0}
    for i, op in enumerate(prog):
        try:
            info = interp.run(op)
            if op[0] == 'abort':
                stats['aborts'] = stats.get('aborts', 0) + (1 if info.get('aborted') else 0)
                op = ['abort:' + op[1][0]]
        except Exception as ex:  # noqa: BLE001
            if not R.exc_in_library(ex):
                raise
            # C02 does not state that an operation succeeds; a raising operation is an aborted transaction and the
            # MDIB must still satisfy every invariant (checked below). Counted, and left to C03.
            stats['raised'] = stats.get('raised', 0) + 1
            stats.setdefault('raised_sigs', set()).add(R.exc_sig(ex))
            info = {'op': op[0], 'skipped': False, 'touched': set(), 'created': set(), 'deleted': set()}
        if not info['skipped']:
            stats['applied'] += 1
            if op[0] == 'multi' and info.get('multi_applied', 0) >= 2:
                stats['multi2'] += 1
            if op[0] == 'descr_recreate' or (op[0] == 'multi' and any(
                    s[0] == 'descr_recreate' for s in op[1]) and info['created']):
                stats['recreate'] += 1
        for sig, detail in chk.after_op(op, info):
            findings.append((sig, f'after op {i} {R.short(op, 200)}: {detail}'))
        if findings and stop_at_first:
            break
    return findings, stats


def case_fn(ctx, case):
    findings, stats = run_program(case)
    nontrivial = stats['multi2'] > 0 or stats['recreate'] > 0 or stats.get('aborts', 0) > 0
    ctx.case(case, nontrivial, 'prog', classes=tuple(MP.program_classes(case['prog'])) + (
        ('recreate-applied',) if stats['recreate'] else ()) + (('multi>=2-applied',) if stats['multi2'] else ()))
    ctx.count('ops_applied', stats['applied'])
    for sig in stats.get('raised_sigs', ()):
        ctx.count(f'op-raised/{sig}')
    return findings


def shard(ctx, fixture, n, max_ops):
    from hypothesis import strategies as st
    inv = MP.inventory(fixture)
    strat = MP.st_program(inv, 1, max_ops, context_ops=True).map(lambda p: {'fixture': fixture, 'prog': p})
    R.hyp_campaign(ctx, f'prog:{fixture}', strat, lambda c: case_fn(ctx, c), n)
    _ = st


# fixed probes for recorded findings (so they are reported on every run and excluded from the campaign by construction)
PROBES = [
    {'fixture': 'mdib_two_mds.xml', 'name': 'get-child-then-delete-parent'},
]


def probe_child_then_parent():
    """get_descriptor(child) followed by remove_descriptor(parent) inside one descriptor transaction."""
    import sdc11073.definitions_sdc  # noqa: F401
    from sdc11073.mdib import ProviderMdib
    mdib = ProviderMdib.from_string(W.fixture('mdib_two_mds.xml'))
    inv = MP.inventory('mdib_two_mds.xml')
    child = parent = None
    for h, c, p in inv.descriptors:
        if c.endswith('NumericMetricDescriptorContainer') and p in inv.channels:
            child, parent = h, p
            break
    if child is None:
        return []
    with mdib.descriptor_transaction() as mgr:
        mgr.get_descriptor(child)
        mgr.remove_descriptor(parent)
    return [(f'{P}/referential/{p.split(":")[0]}/probe:get-child-then-delete-parent', p)
            for p in C.referential_problems(mdib)]


def run(ctx):
    quick = ctx.tier == 'quick'
    for sig, detail in probe_child_then_parent():
        ctx.finding(sig, detail, {'probe': 'get-child-then-delete-parent'}, 'probe')
    ctx.case({'probe': 'get-child-then-delete-parent'}, True, 'probe')
    jobs = []
    per = 40 if quick else 1200
    for _ in range(R.NPROC // 2):
        jobs.append(('mdib_two_mds.xml', per, 25 if quick else 40))
        jobs.append(('70041_MDIB_Final.xml', max(per // 4, 8), 20 if quick else 40))
    R.run_shards(ctx, __name__, 'shard', jobs)


def replay(part, case):
    if part == 'probe':
        return probe_child_then_parent()
    findings, _ = run_program(case, stop_at_first=False)
    return findings
