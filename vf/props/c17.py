"""C17 - HTTP body framing and content coding are lossless and honour negotiation.

Parts
  echo        real SoapClient -> in-memory HTTP -> real DispatchingRequestHandler -> echo component and back:
              decode(encode(body)) == body on request and response path; chunked streams parse with an independent RFC 7230
              chunk parser; the Content-Encoding on the wire is one the peer accepted and that is enabled locally
  chunks      mk_chunks / _read_dechunk alone for chunk sizes 1..70000 and bodies up to 3 MB
  header      CompressionHandler.parse_header over a grammar of (sloppy) Accept-Encoding headers: no coding with q=0
  reject      bodies in unsupported or corrupted codings are rejected, never delivered as different bytes
"""
from __future__ import annotations

import io
import re

from hypothesis import strategies as st

from vf import memhttp as M
from vf import run as R

P = 'C17'
META = {
    'level': 'exploration',
    'rule': ('bodies (empty .. 300 kB quick / 3 MB thorough; compressible and random), chunk sizes 1..70000, every '
             'registered coding, generated client/server coding sets, Accept-Encoding headers from a grammar (tokens, q '
             'values incl. 0 / 0.0 / 1 / malformed, *, identity, whitespace, unknown tokens, upper case); non-trivial = '
             'body longer than one chunk, or a header with a q=0 entry or wildcard; distinct by case'),
    'assumptions': ['malformed q values are treated as unspecified (either outcome accepted)'],
}


class FakeMsg:
    def __init__(self, body: bytes):
        self.body = body
        self.p_msg = None

    def serialize(self, request_manipulator=None, validate=True, pretty=False):  # noqa: ARG002
        return self.body


class FakeReceived:
    def __init__(self, raw):
        self.raw = raw
        self.action = 'x'


class FakeReader:
    def read_received_message(self, xml_text, validate=True):  # noqa: ARG002
        return FakeReceived(xml_text)


class Echo:
    """Component behind the dispatcher: records the decoded request body and answers with a prepared body."""

    def __init__(self):
        self.received = []
        self.response = b''

    def do_post(self, headers, path, peer_name, request_bytes):  # noqa: ARG002
        self.received.append(request_bytes)
        return 200, 'Ok', self.response

    def do_get(self, headers, path, peer_name):  # noqa: ARG002
        return 200, 'Ok', self.response, 'text/xml'


def ref_dechunk(data: bytes):
    """Independent RFC 7230 chunked-body parser. Returns (body, rest) or raises ValueError."""
    pos = 0
    out = bytearray()
    while True:
        eol = data.find(b'\r\n', pos)
        if eol < 0:
            raise ValueError('no chunk-size line')
        line = data[pos:eol].split(b';')[0].strip()
        if not re.fullmatch(rb'[0-9A-Fa-f]+', line):
            raise ValueError(f'bad chunk size {line!r}')
        size = int(line, 16)
        pos = eol + 2
        if size == 0:
            # trailer section (none expected) + final CRLF
            if data[pos:pos + 2] != b'\r\n':
                raise ValueError('missing final CRLF')
            return bytes(out), data[pos + 2:]
        if len(data) < pos + size + 2:
            raise ValueError('chunk truncated')
        out += data[pos:pos + size]
        if data[pos + size:pos + size + 2] != b'\r\n':
            raise ValueError('chunk not terminated by CRLF')
        pos += size + 2


def split_http(raw: bytes):
    head, _, body = raw.partition(b'\r\n\r\n')
    lines = head.split(b'\r\n')
    headers = {}
    for ln in lines[1:]:
        k, _, v = ln.partition(b':')
        headers[k.strip().lower().decode('latin-1')] = v.strip().decode('latin-1')
    return lines[0], headers, body


def mk_body(kind: str, size: int, seed: int) -> bytes:
    if size == 0:
        return b''
    if kind == 'text':
        unit = (b'<msg:State DescriptorHandle="h%d" StateVersion="%d"/>' % (seed, seed))
        return (unit * (size // len(unit) + 1))[:size]
    import random
    return random.Random(seed).randbytes(size)


def st_echo_case(max_size):
    from sdc11073.httpserver.compression import CompressionHandler
    codings = list(CompressionHandler.available_encodings)
    subset = st.lists(st.sampled_from(codings), unique=True, max_size=len(codings))
    size = st.one_of(st.integers(0, 300), st.integers(0, 5000), st.integers(0, max_size))
    chunk = st.one_of(st.just(0), st.integers(1, 20), st.integers(1, 2000), st.integers(1, 70000))
    return st.fixed_dictionaries({
        'req_kind': st.sampled_from(['text', 'random']), 'req_size': size, 'resp_kind': st.sampled_from(['text', 'random']),
        'resp_size': size, 'seed': st.integers(0, 10 ** 6),
        'client_chunk': chunk, 'server_chunk': chunk,
        'client_supported': subset, 'client_request_encodings': st.lists(st.sampled_from(codings + ['br', 'deflate']),
                                                                         unique=True, max_size=3),
        'server_supported': subset})


def echo_case(ctx, c):
    server = M.MemServer(chunk_size=c['server_chunk'], supported_encodings=c['server_supported'])
    echo = Echo()
    server.dispatcher.register_instance('p', echo)
    req_body = mk_body(c['req_kind'], c['req_size'], c['seed'])
    echo.response = mk_body(c['resp_kind'], c['resp_size'], c['seed'] + 1)
    client = M.MemSoapClient(server, FakeReader(), supported_encodings=list(c['client_supported']),
                             request_encodings=list(c['client_request_encodings']), chunk_size=c['client_chunk'])
    out = []
    nontrivial = (c['client_chunk'] and c['req_size'] > c['client_chunk']) or (
        c['server_chunk'] and c['resp_size'] > c['server_chunk'])
    ctx.case(c, bool(nontrivial), 'echo', classes=(('req-chunked',) if c['client_chunk'] else ()) + (
        ('resp-chunked',) if c['server_chunk'] else ()))
    try:
        result = client.post_message_to('/p/x', FakeMsg(req_body))
    except Exception as ex:  # noqa: BLE001
        if not R.exc_in_library(ex):
            raise
        tap = client.tap[-1] if client.tap else {}
        hexc = tap.get('handler_exception')
        return [(f'{P}/echo-raises/{R.exc_sig(hexc or ex)}',
                 f'{type(ex).__name__}: {ex}; handler exception: {hexc!r}'[:300])]
    tap = client.tap[-1]
    # --- request path
    if echo.received != [req_body]:
        got = echo.received[0] if echo.received else None
        out.append((f'{P}/request-body-changed', f'component received {None if got is None else len(got)} bytes, '
                                                 f'{len(req_body)} were sent (first diff at '
                                                 f'{_first_diff(got or b"", req_body)})'))
    _, req_headers, req_wire = split_http(tap['request'])
    enc = req_headers.get('content-encoding')
    if enc is not None and (enc not in c['client_request_encodings'] or enc not in c['client_supported']):
        out.append((f'{P}/request-coding-not-negotiated', f'request sent with Content-Encoding {enc}, peer accepts '
                                                          f'{c["client_request_encodings"]}, locally enabled '
                                                          f'{c["client_supported"]}'))
    if req_headers.get('transfer-encoding', '').lower() == 'chunked':
        try:
            _, rest = ref_dechunk(req_wire)
            if rest:
                out.append((f'{P}/request-chunking-invalid', f'{len(rest)} bytes after the last chunk'))
        except ValueError as ex:
            out.append((f'{P}/request-chunking-invalid', str(ex)))
    # --- response path
    if result is None:
        got = b''
    else:
        got = result.raw
    if got != echo.response:
        out.append((f'{P}/response-body-changed', f'client read {len(got)} bytes, component answered {len(echo.response)} '
                                                  f'(first diff at {_first_diff(got, echo.response)})'))
    _, resp_headers, resp_wire = split_http(tap['response'])
    enc = resp_headers.get('content-encoding')
    if enc is not None:
        accepted = [t.strip() for t in req_headers.get('accept-encoding', '').split(',') if t.strip()]
        if enc not in accepted or enc not in c['server_supported']:
            out.append((f'{P}/response-coding-not-negotiated', f'response has Content-Encoding {enc}; request accepted '
                                                               f'{accepted}, server enabled {c["server_supported"]}'))
    if resp_headers.get('transfer-encoding', '').lower() == 'chunked':
        try:
            _, rest = ref_dechunk(resp_wire)
            if rest:
                out.append((f'{P}/response-chunking-invalid', f'{len(rest)} bytes after the last chunk'))
        except ValueError as ex:
            out.append((f'{P}/response-chunking-invalid', str(ex)))
    return out


def _first_diff(a: bytes, b: bytes):
    for i, (x, y) in enumerate(zip(a, b)):
        if x != y:
            return i
    return min(len(a), len(b))


def chunk_case(ctx, c):
    from sdc11073.httpserver import httpreader
    body = mk_body(c['kind'], c['size'], c['seed'])
    cs = c['chunk']
    out = []
    ctx.case(c, c['size'] > cs, 'chunks')
    wire = httpreader.mk_chunks(body, cs)
    try:
        ref_body, rest = ref_dechunk(wire)
        if ref_body != body or rest:
            out.append((f'{P}/mk_chunks-invalid', f'reference parser got {len(ref_body)} bytes (+{len(rest)} trailing), '
                                                  f'body has {len(body)}'))
    except ValueError as ex:
        out.append((f'{P}/mk_chunks-invalid', str(ex)))
    back = httpreader.HTTPReader._read_dechunk(io.BytesIO(wire))  # noqa: SLF001
    if back != body:
        out.append((f'{P}/dechunk-changes-body', f'{len(body)} bytes, chunk size {cs}: read back {len(back)} bytes'))
    return out


# ---------------------------------------------------------------------------------------------------- headers

TOKENS = ['gzip', 'x-lz4', 'lz4', 'identity', '*', 'br', 'deflate', 'GZIP', 'compress', 'x-gzip']
QVALS = [None, '0', '0.0', '0.000', '1', '1.0', '0.5', '0.001', '.5', '1.', 'abc', '', '-1', '2', ' 0', '0 ']


def st_header():
    ows = st.sampled_from(['', ' ', '  ', '\t'])
    # the last member is the shape of the parameter: name=value, or one of the malformed shapes a sloppy peer may send
    item = st.tuples(st.sampled_from(TOKENS), st.sampled_from(QVALS), ows, ows, st.sampled_from(['q', 'Q', 'q ', ' q']),
                     st.booleans(), st.sampled_from(PARAM_FORMS))
    return st.lists(item, min_size=0, max_size=5)


PARAM_FORMS = ['{n}={v}', '{n}={v}', '{n}={v}', '{n}', '', '={v}', '{n}=={v}', '{n}={v}=', '{v}']


def render_header(items) -> str:
    parts = []
    for tok, q, w1, w2, qname, extra, *form in items:
        s = f'{w1}{tok}{w2}'
        if q is not None:
            s += ';' + (form[0] if form else '{n}={v}').format(n=qname, v=q)
        if extra:
            s += ';x=1'
        parts.append(s)
    return ','.join(parts)


def ref_quality(items) -> dict:
    """token -> 'zero' | 'positive' | 'unspecified' (malformed q) following RFC 7231 section 5.3.1 for well-formed q."""
    out = {}
    for tok, q, _w1, _w2, qname, _extra, *form in items:
        if q is None:
            verdict = 'positive'
        elif form and form[0] != '{n}={v}':
            verdict = 'unspecified'  # not a parameter of the form name=value
        elif qname.strip().lower() == 'q' and re.fullmatch(r'(0(\.[0-9]{0,3})?|1(\.0{0,3})?)', q.strip()):
            verdict = 'zero' if float(q) == 0 else 'positive'
        else:
            verdict = 'unspecified'
        out[tok] = verdict  # the last entry for a token wins in the library as well (dict)
    return out


def header_case(ctx, items):
    from sdc11073.httpserver.compression import CompressionHandler
    header = render_header(items)
    quality = ref_quality(items)
    # several entries for one token with different verdicts: outcome unspecified
    seen = {}
    for tok, q, *_ in items:
        seen.setdefault(tok, set()).add(q)
    ambiguous = {t for t, qs in seen.items() if len(qs) > 1}
    nontrivial = any(v == 'zero' for v in quality.values()) or '*' in quality
    ctx.case(header, nontrivial, 'header')
    try:
        result = CompressionHandler.parse_header(header)
    except Exception as ex:  # noqa: BLE001
        if not R.exc_in_library(ex):
            raise
        return [(f'{P}/parse_header-raises/{R.exc_sig(ex)}', f'{header!r}: {type(ex).__name__}: {ex}')]
    out = []
    for tok in result:
        if tok in ambiguous:
            continue
        if quality.get(tok) == 'zero':
            out.append((f'{P}/q0-coding-accepted', f'Accept-Encoding {header!r} -> {result}: {tok!r} has q=0'))
            break
    if not out:
        for tok in result:
            if tok not in quality and tok != '':
                out.append((f'{P}/coding-invented', f'Accept-Encoding {header!r} -> {result}: {tok!r} is not in the header'))
                break
    # what a server / client would then select
    if not out:
        for supported in (['gzip'], ['x-lz4', 'lz4'], list(CompressionHandler.available_encodings)):
            chosen = next((e for e in result if e in supported), None)
            if chosen is not None and chosen not in ambiguous and quality.get(chosen) == 'zero':
                out.append((f'{P}/q0-coding-accepted', f'{header!r}: {chosen} would be used'))
                break
    return out


# --------------------------------------------------------------------------------------------------- keep-alive
ACCEPT_HEADERS = [None, 'gzip', 'identity', 'gzip;q=0', 'x-lz4', 'lz4', 'gzip, x-lz4, lz4', 'x-lz4;q=0, gzip', 'br', '']


def st_keepalive_case():
    from sdc11073.httpserver.compression import CompressionHandler
    codings = list(CompressionHandler.available_encodings)
    return st.fixed_dictionaries({
        'server_supported': st.lists(st.sampled_from(codings), unique=True, min_size=1, max_size=len(codings)),
        'server_chunk': st.sampled_from([0, 0, 7, 4000]),
        'resp_size': st.integers(0, 3000), 'seed': st.integers(0, 1000),
        'requests': st.lists(st.sampled_from(ACCEPT_HEADERS), min_size=2, max_size=5)})


def split_responses(raw: bytes) -> list:
    """[(status line, headers, decoded-transfer body)] of the responses in a keep-alive byte stream."""
    out = []
    rest = raw
    while rest:
        head, sep, tail = rest.partition(b'\r\n\r\n')
        if not sep:
            raise ValueError(f'no header end in {rest[:60]!r}')
        lines = head.decode('latin-1').split('\r\n')
        headers = {}
        for line in lines[1:]:
            k, _, v = line.partition(':')
            headers[k.strip().lower()] = v.strip()
        if headers.get('transfer-encoding', '').lower() == 'chunked':
            body, rest = ref_dechunk(tail)
        else:
            n = int(headers.get('content-length', '0'))
            body, rest = tail[:n], tail[n:]
        out.append((lines[0], headers, body))
    return out


def keepalive_case(ctx, c):
    """Several requests on one connection, each with its own Accept-Encoding: every response is coded for its request."""
    from sdc11073.httpserver.compression import CompressionHandler
    server = M.MemServer(chunk_size=c['server_chunk'], supported_encodings=c['server_supported'])
    echo = Echo()
    server.dispatcher.register_instance('p', echo)
    echo.response = mk_body('text', c['resp_size'], c['seed'])
    body = b'<x/>'
    raw = b''
    for i, accept in enumerate(c['requests']):
        last = i == len(c['requests']) - 1
        raw += (f'POST /p/x HTTP/1.1\r\nHost: h\r\nContent-Type: application/soap+xml\r\nContent-Length: {len(body)}\r\n'
                + (f'Accept-Encoding: {accept}\r\n' if accept is not None else '')
                + ('Connection: close\r\n' if last else 'Connection: keep-alive\r\n') + '\r\n').encode() + body
    ctx.case(c, len(set(c['requests'])) >= 2, 'keepalive')
    resp, exc, _reader = M.handle_raw(server, raw)
    if exc is not None:
        if not R.exc_in_library(exc):
            raise exc
        return [(f'{P}/keepalive-raises/{R.exc_sig(exc)}', f'{type(exc).__name__}: {exc}'[:300])]
    try:
        responses = split_responses(resp)
    except ValueError as ex:
        return [(f'{P}/keepalive/response-stream-unparsable', str(ex)[:300])]
    out = []
    if len(responses) != len(c['requests']):
        return [(f'{P}/keepalive/response-count', f'{len(c["requests"])} requests, {len(responses)} responses')]
    for i, (accept, (status, headers, wire)) in enumerate(zip(c['requests'], responses)):
        enc = headers.get('content-encoding')
        tokens = [t.split(';')[0].strip() for t in (accept or '').split(',') if t.strip()]
        refused = [t.split(';')[0].strip() for t in (accept or '').split(',') if t.replace(' ', '').endswith(';q=0')]
        if enc is not None and (enc not in tokens or enc in refused or enc not in c['server_supported']):
            out.append((f'{P}/keepalive/response-coding-not-negotiated',
                        f'request {i + 1} of {len(c["requests"])} had Accept-Encoding {accept!r} (earlier ones: '
                        f'{c["requests"][:i]}), the response is coded {enc!r}'))
            break
        try:
            plain = CompressionHandler.decompress_payload(enc, wire) if enc else wire
        except Exception as ex:  # noqa: BLE001
            out.append((f'{P}/keepalive/response-undecodable', f'response {i + 1} ({status}): {ex}'[:200]))
            break
        if plain != echo.response:
            out.append((f'{P}/keepalive/response-body-changed', f'response {i + 1}: {len(plain)} bytes, expected '
                                                                f'{len(echo.response)}'))
            break
    return out


# --------------------------------------------------------------------------------------------------- rejects

def st_reject_case():
    return st.fixed_dictionaries({
        'coding': st.sampled_from(['br', 'deflate', 'zstd', 'gzip', 'x-lz4', 'lz4', 'GZIP', 'gzip, gzip', '']),
        'corrupt': st.sampled_from(['none', 'truncate', 'flip', 'garbage', 'other-coding']),
        'size': st.integers(1, 4000), 'seed': st.integers(0, 10 ** 6), 'server_supported': st.sampled_from(
            [['gzip'], ['x-lz4', 'lz4'], ['gzip', 'x-lz4', 'lz4'], []])})


def reject_case(ctx, c):
    from sdc11073.httpserver.compression import CompressionHandler
    body = mk_body('text', c['size'], c['seed'])
    coding = c['coding']
    registered = coding in CompressionHandler.available_encodings
    payload = body
    valid = False
    if registered:
        payload = CompressionHandler.compress_payload(coding, body)
        valid = True
        if c['corrupt'] == 'truncate':
            payload, valid = payload[:max(len(payload) // 2, 1)], False
        elif c['corrupt'] == 'flip' and coding == 'gzip':  # gzip carries a CRC; an lz4 frame has no content checksum
            mid = len(payload) // 2
            payload, valid = payload[:mid] + bytes([payload[mid] ^ 0xFF]) + payload[mid + 1:], False
        elif c['corrupt'] == 'garbage':
            payload, valid = b'\x00\x01garbage' + body[:20], False
        elif c['corrupt'] == 'other-coding':
            other = 'x-lz4' if coding == 'gzip' else 'gzip'
            if other in CompressionHandler.available_encodings:
                payload, valid = CompressionHandler.compress_payload(other, body), False
    server = M.MemServer(supported_encodings=c['server_supported'])
    echo = Echo()
    echo.response = b'ok'
    server.dispatcher.register_instance('p', echo)
    head = (f'POST /p/x HTTP/1.1\r\nHost: h\r\nContent-Type: application/soap+xml\r\n'
            f'Content-Length: {len(payload)}\r\n' + (f'Content-Encoding: {coding}\r\n' if coding else '') + '\r\n').encode()
    response, exc, _reader = M.handle_raw(server, head + payload)
    supported_here = coding in (c['server_supported'] or CompressionHandler.available_encodings)
    ctx.case(c, True, 'reject', classes=(('valid',) if valid and supported_here else ('must-reject',)))
    out = []
    if isinstance(exc, M.SpinDetected):
        return [(f'{P}/reject/spin', f'handler spins on {c}')]
    if coding == '':
        if echo.received != [body]:
            out.append((f'{P}/identity-body-changed', f'uncoded body: component received {echo.received[:1]!r:.80}'))
        return out
    if valid and supported_here:
        if echo.received != [body]:
            out.append((f'{P}/valid-coded-body-not-delivered/{coding}', f'handler exception {exc!r}, received '
                                                                        f'{len(echo.received)} bodies'))
        return out
    # must be rejected: the component must not see bytes that differ from the original body
    if echo.received and echo.received[0] != body:
        out.append((f'{P}/misinterpreted-body/{coding}/{c["corrupt"]}',
                    f'Content-Encoding {coding!r} ({c["corrupt"]}) with server codings {c["server_supported"]}: component '
                    f'received {len(echo.received[0])} bytes that are not the original body'))
    return out


# ------------------------------------------------------------------------------------------------------- run

def shard(ctx, which, n):
    import logging
    logging.disable(logging.CRITICAL)
    if which == 'echo':
        R.hyp_campaign(ctx, which, st_echo_case(300_000 if ctx.tier == 'quick' else 3_000_000), lambda c: echo_case(ctx, c), n)
    elif which == 'chunks':
        strat = st.fixed_dictionaries({'kind': st.sampled_from(['text', 'random']),
                                       'size': st.one_of(st.integers(0, 3000), st.integers(0, 300_000 if ctx.tier == 'quick' else 3_000_000)),
                                       'seed': st.integers(0, 1000),
                                       'chunk': st.one_of(st.integers(1, 64), st.integers(1, 70000))})
        R.hyp_campaign(ctx, which, strat, lambda c: chunk_case(ctx, c), n)
    elif which == 'header':
        R.hyp_campaign(ctx, which, st_header(), lambda items: header_case(ctx, items), n)
    elif which == 'keepalive':
        R.hyp_campaign(ctx, which, st_keepalive_case(), lambda c: keepalive_case(ctx, c), n)
    elif which == 'reconfigure':
        R.hyp_campaign(ctx, which, st_reconfigure(), lambda c: reconfigure_case(ctx, c), n)
    else:
        R.hyp_campaign(ctx, which, st_reject_case(), lambda c: reject_case(ctx, c), n)


# --------------------------------------------------- part reconfigure: the codings are changed while the provider is running
def st_reconfigure():
    from sdc11073.httpserver.compression import CompressionHandler
    codings = sorted(CompressionHandler.available_encodings)
    return st.lists(st.lists(st.sampled_from(codings), max_size=3, unique=True), min_size=1, max_size=4)


def reconfigure_case(ctx, sets):
    """A provider that created its HTTP server itself; set_used_compression(...) is called while it runs; after every
    call a GetMdib request that accepts every coding is answered through the real request handler, with what the
    provider handed to its server at start-up: the response coding is one that is enabled now, or none."""
    import re as _re

    from sdc11073.httpserver.compression import CompressionHandler
    from sdc11073.provider import providerimpl
    from vf import loopback as L
    from vf import world as W
    from vf.props import c01

    class Server(L.FakeHttpServer):
        created = []

        def __init__(self, my_ipaddress, ssl_context, supported_encodings=None, logger=None, chunk_size=0, **_kw):  # noqa: ARG002
            super().__init__(ip=my_ipaddress, net=L.NET)
            self.supported_encodings = supported_encodings  # (the object the provider hands over, not a copy)
            self.chunk_size = chunk_size
            Server.created.append(self)

        def join(self, *a):
            pass
    c01.park_role_workers()
    L.reset_network()
    W.quiet_logging()
    saved = providerimpl.HttpServerThreadBase
    providerimpl.HttpServerThreadBase = Server
    out = []
    world = None
    ctx.case(sets, True, 'reconfigure', classes=(f'calls={len(sets)}',))
    try:
        world = W.World(W.fixture('mdib_tns.xml'), own_server=True)
        consumer, _ = world.add_consumer(init_mdib=False)
        get_mdib = next(e for e in L.NET.log if e.action and e.action.endswith('/GetMdib')) if any(
            e.action and e.action.endswith('/GetMdib') for e in L.NET.log) else None
        if get_mdib is None:
            consumer.client('Get').get_mdib()
            get_mdib = next(e for e in L.NET.log if e.action and e.action.endswith('/GetMdib'))
        server = Server.created[0]
        mem = M.MemServer()
        mem.dispatcher = server.dispatcher
        mem.supported_encodings = server.supported_encodings
        everything = ', '.join(sorted(CompressionHandler.available_encodings))
        for enabled in sets:
            world.provider.set_used_compression(*enabled)
            raw = (f'POST {get_mdib.path} HTTP/1.1\r\nHost: h\r\nContent-Type: application/soap+xml; charset=utf-8\r\n'
                   f'Accept-Encoding: {everything}\r\nContent-Length: {len(get_mdib.request)}\r\n\r\n').encode() + get_mdib.request
            response, exc, _reader = M.handle_raw(mem, raw)
            if exc is not None:
                raise exc
            m = _re.search(rb'(?im)^content-encoding:\s*([^\r\n]+)', response.partition(b'\r\n\r\n')[0])
            used = m.group(1).decode().strip() if m else None
            if used is not None and used not in enabled:
                out.append((f'{P}/reconfigure/coding-not-enabled-any-more',
                            f'after set_used_compression{tuple(enabled)} (earlier: {sets[:sets.index(enabled)]}) a request '
                            f'accepting {everything!r} was answered with Content-Encoding {used!r}'))
                break
    finally:
        providerimpl.HttpServerThreadBase = saved
        if world is not None:
            world.close()
    return out


def run(ctx):
    q = ctx.tier == 'quick'
    jobs = [('echo', 150 if q else 6000)] * 6 + [('chunks', 200 if q else 6000)] * 3 + [
        ('header', 1500 if q else 60000)] * 3 + [('reject', 300 if q else 10000)] * 3 + [
        ('keepalive', 300 if q else 10000), ('reconfigure', 12 if q else 300)]
    R.run_shards(ctx, __name__, 'shard', jobs)


def replay(part, case):
    ctx = R.Ctx(P, 'quick', 0, {})
    import logging
    logging.disable(logging.CRITICAL)
    if part == 'echo':
        return echo_case(ctx, case)
    if part == 'chunks':
        return chunk_case(ctx, case)
    if part == 'keepalive':
        return keepalive_case(ctx, case)
    if part == 'reconfigure':
        return reconfigure_case(ctx, case)
    if part == 'header':
        return header_case(ctx, [tuple(i) for i in case])
    return reject_case(ctx, case)
