"""C03 - transactions are atomic and the data they hand out is isolated from the MDIB.

Histories over: committing ops (optionally with an in-place nested write on the transaction-owned copy), aborted ops
(exception raised at the k-th point of the transaction body), API calls the transaction rejects, commits the code itself
makes fail, nested writes on entity-getter results and on objects published by earlier commits.
Oracle: after an abort / rejection / failed commit the full canonical snapshot (content, versions, lookups, table
sizes) is what it was before and the `transaction` / `rt_updates` observables (the only triggers for reports) did not
fire; objects published by earlier commits keep their canonical value for the rest of the history; nested writes on
handed-out objects do not show in the MDIB without a commit.
"""
from __future__ import annotations

import contextlib
import enum
from decimal import Decimal

from hypothesis import strategies as st

from vf import canon as C
from vf import run as R
from vf import world as W
from vf.gen import mdibprog as MP
from vf.gen import types as T

P = 'C03'
META = {
    'level': 'exploration',
    'rule': ('histories of commit / abort(crash point k) / reject / commit_fail / entity-mutate / entity-refresh (update() then nested write) / retained-mutate (write to a getter result after its commit) / published-copy-mutate '
             'steps over all transaction kinds on tests/mdib_two_mds.xml; non-trivial = the body modified at least one '
             'object before the fault, or a nested write at depth >= 2 was performed; distinct by history'),
    'assumptions': ['reports are sent only from the `transaction` and `rt_updates` observables of ProviderMdib '
                    '(providerimpl binds exactly these), so "no report" is observed there'],
}

FIXTURE = 'mdib_two_mds.xml'


Crash, CrashCtl, MgrProxy = MP.Crash, MP.CrashCtl, MP.MgrProxy


def full_snapshot(mdib):
    return {'mdib': C.canon_mdib(mdib), 'sizes': (len(mdib.descriptions.objects), len(mdib.states.objects),
                                                  len(mdib.context_states.objects)),
            'audit': tuple(C.audit_mdib(mdib)), 'ref': tuple(C.referential_problems(mdib)),
            # the version counters remembered for deleted handles are MDIB state as well
            'remembered': (dict(mdib.descriptions.handle_version_lookup), dict(mdib.states.handle_version_lookup),
                           dict(mdib.context_states.handle_version_lookup))}


def diff_snapshot(a, b):
    out = C.diff_mdib(a['mdib'], b['mdib'])
    if a['sizes'] != b['sizes']:
        out.append(('sizes', a['sizes'], b['sizes']))
    if a['audit'] != b['audit']:
        out.append(('lookup audit', a['audit'][:2], b['audit'][:2]))
    if a['ref'] != b['ref']:
        out.append(('referential', a['ref'][:2], b['ref'][:2]))
    if a['remembered'] != b['remembered']:
        for x, y, name in zip(a['remembered'], b['remembered'], ('descriptors', 'states', 'context_states')):
            if x != y:
                out.append((f'remembered-versions.{name}', {k: (x.get(k, '<absent>'), y.get(k, '<absent>'))
                                                            for k in x.keys() | y.keys() if x.get(k) != y.get(k)}, ''))
    return out


def nested_write(obj, a: int, b: int, min_depth: int = 2):
    """In-place write at a nested path of `obj` (chosen by a, b). Returns the path written or None."""
    cands = []
    for path, kind in T.nested_paths(obj, max_depth=4):
        if len(path) >= min_depth and kind in ('scalar', 'list'):
            cands.append((path, kind))
    if not cands:
        return None
    for off in range(len(cands)):
        path, kind = cands[(a + off) % len(cands)]
        holder = obj
        for p in path[:-1]:
            holder = holder[p] if isinstance(p, int) else getattr(holder, p)
        name = path[-1]
        cur = getattr(holder, name)
        prop = dict(holder.sorted_container_properties())[name]
        if kind == 'list':
            if cur and b % 2 == 0:
                cur.pop()
            elif cur:
                cur.append(cur[0])
            else:
                item = _new_list_item(prop)
                if item is None:
                    continue
                cur.append(item)  # grow a list that is empty in the MDIB, in place
            return path
        new = _other_value(cur, prop, b)
        if new is None:
            continue
        object.__setattr__(holder, prop._local_var_name, new)  # noqa: SLF001  (plain attribute write, no validation)
        return path
    return None


def _new_list_item(prop):
    from sdc11073.xml_types import xml_structure as xs
    if isinstance(prop, xs.SubElementListProperty):
        try:
            item = T.new_instance(prop.value_class)
        except Exception:  # noqa: BLE001
            return None
        for name, text_prop in (('Code', xs.StringAttributeProperty), ('text', xs.NodeStringProperty)):
            if isinstance(getattr(type(item), name, None), text_prop) and not getattr(item, name):
                setattr(item, name, 'vf')
        return item
    if isinstance(prop, (xs.SubElementTextListProperty, xs._AttributeListBase)) and not isinstance(  # noqa: SLF001
            prop, xs.DecimalListAttributeProperty):
        return 'vf'
    return None


def _other_value(cur, prop, b):
    from sdc11073.xml_types import xml_structure as xs
    if isinstance(cur, bool):
        return not cur
    if isinstance(cur, enum.Enum):
        members = list(type(cur))
        return members[(members.index(cur) + 1 + b % max(len(members) - 1, 1)) % len(members)] if len(members) > 1 else None
    if isinstance(cur, str):
        return cur + '~'
    if isinstance(cur, Decimal):
        return cur + 1
    if isinstance(cur, int):
        return cur + 1
    if isinstance(cur, float):
        return cur + 1.0
    if cur is None and isinstance(prop, xs.StringAttributeProperty):
        return 'vf'
    return None


class Runner:
    def __init__(self):
        import sdc11073.definitions_sdc  # noqa: F401
        from sdc11073 import observableproperties as properties
        from sdc11073.mdib import ProviderMdib
        W.quiet_logging()
        self.inv = MP.inventory(FIXTURE)
        self.mdib = ProviderMdib.from_string(W.fixture(FIXTURE))
        self.interp = MP.Interp(self.mdib, self.inv)
        self.fired = 0
        self.published = []  # [obj, canon at publication, label]
        properties.strongbind(self.mdib, transaction=self._on_transaction, rt_updates=self._on_rt)
        self.findings = []
        self.nontrivial = False
        self.classes = set()
        self.retained = []  # objects handed out by the getters of the last committed transaction

    def _on_transaction(self, result):
        if result is None:
            return
        objs = list(result.descr_updated) + list(result.descr_created) + list(result.descr_deleted) + list(
            result.all_states())
        if objs:
            self.fired += 1  # (an empty result makes no report)
        for o in objs:
            self.published.append([o, C.canon(o), f'{type(o).__name__}:{getattr(o, "Handle", None) or o.DescriptorHandle}'])

    def _on_rt(self, states):
        self.fired += 1

    def check_published(self, step):
        for rec in self.published:
            now = C.canon(rec[0])
            if now != rec[1]:
                d = C.diff(rec[1], now)
                self.findings.append((f'{P}/published-copy-changed/{step[0]}/{rec[2].split(":")[0]}{d[0][0] if d else ""}',
                                      f'{rec[2]} published by an earlier commit changed after step {R.short(step, 160)}: '
                                      f'{[list(map(str, x)) for x in d[:2]]}'))
                rec[1] = now

    # ------------------------------------------------------------------------------------------------ steps
    def _run_op(self, op, crash_at, nested):
        ctl = CrashCtl(crash_at)
        did_nested = []

        @contextlib.contextmanager
        def hook(cm):
            with cm as mgr:
                ctl.tick()  # point 0: body entered
                yield MgrProxy(mgr, ctl)
                ctl.tick()  # last point: body complete, before the commit

        def nested_hook(obj):
            if nested is not None:
                path = nested_write(obj, nested[0], nested[1])
                if path is not None:
                    did_nested.append(path)
                    ctl.modified = True

        self.interp.tx_hook = hook
        self.interp.point_hook = ctl.tick
        self.interp.nested_hook = nested_hook
        try:
            info = self.interp.run(op)
            raised = None
        except Crash as ex:
            info, raised = None, ex
        except Exception as ex:  # noqa: BLE001
            if not R.exc_in_library(ex):
                raise
            info, raised = None, ex
        finally:
            self.interp.tx_hook = self.interp.point_hook = self.interp.nested_hook = None
        return info, raised, ctl, did_nested

    def step_commit(self, step):
        _, op, nested = step
        before = full_snapshot(self.mdib)
        fired0 = self.fired
        info, raised, ctl, did_nested = self._run_op(op, None, nested)
        if raised is not None:
            # a commit that fails on its own: atomicity applies
            self._expect_unchanged(step, before, fired0, f'commit failed with {type(raised).__name__}: {raised}'[:200],
                                   f'commit-failed/{R.exc_sig(raised)}')
        elif ctl.handed:
            self.retained = [(o, op[0]) for o in ctl.handed]
        if did_nested:
            self.nontrivial = True
            self.classes.add('nested-commit')

    def step_abort(self, step):
        _, op, k, nested = step
        before = full_snapshot(self.mdib)
        fired0 = self.fired
        info, raised, ctl, did_nested = self._run_op(op, k, nested)
        if isinstance(raised, Crash):
            self.classes.add('aborted')
            if ctl.modified or did_nested:
                self.nontrivial = True
                self.classes.add('aborted-after-modification')
            self._expect_unchanged(step, before, fired0, f'body raised at point {k}', f'abort/{op[0]}')
        elif raised is not None:
            self._expect_unchanged(step, before, fired0, f'{type(raised).__name__}: {raised}'[:200],
                                   f'commit-failed/{R.exc_sig(raised)}')

    def _expect_unchanged(self, step, before, fired0, why, bucket, with_part=True):
        after = full_snapshot(self.mdib)
        d = diff_snapshot(before, after)
        if d:
            first = str(d[0][0])
            part = first.split('.')[-1] if '.' in first else first.split('[')[0]
            self.findings.append((f'{P}/not-atomic/{bucket}/{part}' if with_part else f'{P}/not-atomic/{bucket}',
                                  f'{why}, but the MDIB changed: {[list(map(str, x)) for x in d[:3]]}'))
        if self.fired != fired0:
            self.findings.append((f'{P}/report-after-failure/{bucket}', f'{why}, but the transaction observable fired'))

    def step_reject(self, step):
        """A call that the API documents as rejected.  caught=False: the exception leaves the transaction body (the
        transaction is aborted); caught=True: the application catches it inside the body and leaves the body normally
        - the rejected call itself must not have contributed anything to the commit."""
        _, kind, pre_op, sel = step[:4]
        caught = bool(step[4]) if len(step) > 4 else False  # noqa: PLR2004
        if caught and (pre_op or kind == 'dup_get'):
            caught = False  # (with a legitimate modification in the same body the commit is not empty)
        mdib, inv = self.mdib, self.inv
        before = full_snapshot(mdib)
        fired0 = self.fired
        metric = inv.states['metric'][sel % len(inv.states['metric'])][0]
        alert = inv.states['alert'][sel % len(inv.states['alert'])][0] if inv.states['alert'] else None
        raised = None
        modified = False
        inner = []

        def rejected(fn):
            if not caught:
                fn()
                return
            try:
                fn()
            except Exception as ex:  # noqa: BLE001
                if not R.exc_in_library(ex):
                    raise
                inner.append(ex)
        try:
            if kind in ('wrong_type', 'dup_get', 'unknown', 'multistate_entity', 'write_entities_partial'):
                with mdib.metric_state_transaction() as mgr:
                    if pre_op:
                        s = mgr.get_state(metric)
                        s.ActivationState = mdib.data_model.pm_types.ComponentActivation.OFF
                        modified = True
                    if kind == 'wrong_type':
                        rejected(lambda: mgr.get_state(alert))
                    elif kind == 'dup_get':
                        if not pre_op:
                            mgr.get_state(metric)
                        mgr.get_state(metric)
                    elif kind == 'unknown':
                        rejected(lambda: mgr.get_state('vf_no_such_handle'))
                    elif kind == 'write_entities_partial':
                        # a list whose last member is of the wrong kind: the call is rejected as a whole
                        others = [h for h, _c in inv.states['metric'] if h != metric or not pre_op]
                        good = [mdib.entities.by_handle(h) for h in others[sel % 3: sel % 3 + 2]]
                        bad = mdib.entities.by_handle(alert) if (alert and sel % 2) else mdib.entities.by_handle(
                            inv.context_descriptors[0][0])
                        for e in good:
                            e.state.ActivationState = mdib.data_model.pm_types.ComponentActivation.OFF
                        rejected(lambda: mgr.write_entities([*good, bad]))
                    else:
                        ent = mdib.entities.by_handle(inv.context_descriptors[0][0])
                        rejected(lambda: mgr.write_entity(ent))
            elif kind in ('add_existing', 'state_without_descr'):
                with mdib.descriptor_transaction() as mgr:
                    if pre_op:
                        d = mgr.get_descriptor(metric)
                        d.SafetyClassification = mdib.data_model.pm_types.SafetyClassification.MED_A
                        modified = True
                    if kind == 'add_existing':
                        existing = mdib.descriptions.handle.get_one(alert or metric)
                        rejected(lambda: mgr.add_descriptor(existing.mk_copy()))
                    else:
                        rejected(lambda: mgr.get_state(
                            alert or inv.states['metric'][(sel + 1) % len(inv.states['metric'])][0]))
            elif kind in ('mk_ctx_existing', 'mk_ctx_existing_noadjust'):
                # mk_context_state with a handle that is already in use (with and without version adjustment)
                existing = sorted(mdib.context_states.objects, key=lambda x: x.Handle)
                if not existing:
                    return
                victim = existing[sel % len(existing)]
                others = [x for x in existing if x.Handle != victim.Handle]
                with mdib.context_state_transaction() as mgr:
                    if pre_op and others:
                        st_ = mgr.get_context_state(others[sel % len(others)].Handle)
                        st_.ContextAssociation = mdib.data_model.pm_types.ContextAssociation.DISASSOCIATED
                        modified = True
                    if kind == 'mk_ctx_existing':
                        rejected(lambda: mgr.mk_context_state(victim.DescriptorHandle, victim.Handle))
                    else:
                        rejected(lambda: mgr.mk_context_state(victim.DescriptorHandle, victim.Handle,
                                                              adjust_state_version=False))
            elif kind == 'ctx_unknown_modified':
                with mdib.context_state_transaction() as mgr:
                    ent = mdib.entities.by_handle(inv.context_descriptors[sel % len(inv.context_descriptors)][0])
                    if pre_op:
                        ent.new_state('vf_rej_state')
                        mgr.write_entity(ent, ['vf_rej_state'])
                        modified = True
                    rejected(lambda: mgr.write_entity(ent, ['vf_no_such_state']))
        except Exception as ex:  # noqa: BLE001
            if not R.exc_in_library(ex):
                raise
            raised = ex
        self.classes.add(f'reject:{kind}' + (':caught-inside' if caught else ''))
        if caught and raised is None and inner:
            raised = inner[0]
        elif caught and raised is not None and inner:
            # the call was rejected, caught, and then the commit of the (empty) transaction failed as well
            pass
        if raised is None:
            self.findings.append((f'{P}/not-rejected/{kind}', f'the call documented as rejected was accepted ({kind})'))
            return
        if modified or caught:
            self.nontrivial = True
        self._expect_unchanged(step, before, fired0, f'rejected call {kind} raised {type(raised).__name__}'
                               + (' (caught inside the transaction body, which then ended normally)' if caught else ''),
                               f'reject/{kind}' + ('/caught-inside' if caught else ''))

    def step_commit_fail(self, step):
        _, which, sel = step
        mdib, inv = self.mdib, self.inv
        before = full_snapshot(mdib)
        fired0 = self.fired
        ctx_states = sorted(mdib.context_states.objects, key=lambda s: s.Handle)
        if not ctx_states:
            return
        victim = ctx_states[sel % len(ctx_states)]
        raised = None
        try:
            if which == 'ctx_remove_via_entity':
                ent = mdib.entities.by_handle(victim.DescriptorHandle)
                del ent.states[victim.Handle]
                with mdib.context_state_transaction() as mgr:
                    mgr.write_entity(ent, [victim.Handle])
            elif which == 'ctx_remove_via_descriptor_tx':
                # the context entity, minus one state, is written with a descriptor transaction
                ent = mdib.entities.by_handle(victim.DescriptorHandle)
                del ent.states[victim.Handle]
                with mdib.descriptor_transaction() as mgr:
                    mgr.write_entity(ent)
            elif which == 'dup_ctx_handle_add_state':
                descr = mdib.descriptions.handle.get_one(victim.DescriptorHandle)
                new_state = mdib.data_model.mk_state_container(descr)
                new_state.Handle = victim.Handle
                with mdib.context_state_transaction() as mgr:
                    mgr.add_state(new_state)
        except Exception as ex:  # noqa: BLE001
            if not R.exc_in_library(ex):
                raise
            raised = ex
        self.classes.add(f'commit_fail:{which}')
        self.nontrivial = True
        if raised is not None:
            self._expect_unchanged(step, before, fired0, f'{which}: commit raised {type(raised).__name__}: {raised}'[:200],
                                   f'commit-failed/{which}')
        else:
            after = full_snapshot(mdib)
            if after['audit'] or after['ref'] or after['mdib']['problems']:
                self.findings.append((f'{P}/commit-corrupts/{which}', f'{which} committed, but the MDIB is inconsistent: '
                                      f'{(after["audit"] + after["ref"] + after["mdib"]["problems"])[:2]}'))

    def step_entity_mutate(self, step):
        _, sel, a, b = step
        handles = sorted(d.Handle for d in self.mdib.descriptions.objects)
        h = handles[sel % len(handles)]
        before = full_snapshot(self.mdib)
        fired0 = self.fired
        try:
            ent = self.mdib.entities.by_handle(h)
        except TypeError as ex:
            self.findings.append((f'{P}/entity-getter-raises/{R.exc_sig(ex)}', f'entities.by_handle({h!r}): {ex}'))
            return
        targets = [ent.descriptor] + (list(ent.states.values()) if ent.is_multi_state else [ent.state])
        wrote = False
        for t in targets:
            if t is not None and nested_write(t, a, b, min_depth=1) is not None:
                wrote = True
        self.classes.add('entity-mutate')
        if wrote:
            self.nontrivial = True
            self._expect_unchanged(step, before, fired0, f'nested write on entities.by_handle({h!r}) without commit',
                                   'entity-mutate')

    def step_entity_refresh(self, step):
        """An entity is obtained, a transaction commits, the entity is refreshed with update() and then written to at
        a nested position: still a private copy."""
        _, sel, op, a, b = step
        handles = sorted(d.Handle for d in self.mdib.descriptions.objects)
        h = sel[1] if isinstance(sel, list) else handles[sel % len(handles)]  # ['handle', h]: that very entity
        if h not in handles:
            return
        try:
            ent = self.mdib.entities.by_handle(h)
        except TypeError:
            return
        self._run_op(op, None, None)
        if self.mdib.descriptions.handle.get_one(h, allow_none=True) is None:
            return
        try:
            ent.update()
        except Exception as ex:  # noqa: BLE001
            if not R.exc_in_library(ex):
                raise
            self.classes.add(f'entity-update-raises/{R.exc_sig(ex)}')  # not a matter of this property
            return
        before = full_snapshot(self.mdib)
        fired0 = self.fired
        targets = [ent.descriptor] + (list(ent.states.values()) if ent.is_multi_state else [ent.state])
        wrote = False
        for t in targets:
            if t is not None and nested_write(t, a, b, min_depth=1) is not None:
                wrote = True
        self.classes.add('entity-refresh')
        if wrote:
            self.nontrivial = True
            self._expect_unchanged(step, before, fired0, f'nested write on entity {h!r} after entity.update() without commit',
                                   'entity-refresh')

    def step_retained_mutate(self, step):
        """The application kept an object that a transaction getter handed out and writes to it after that transaction
        has committed: the MDIB changes only through a commit."""
        _, sel, a, b = step
        if not self.retained:
            return
        obj, opname = self.retained[sel % len(self.retained)]
        before = full_snapshot(self.mdib)
        fired0 = self.fired
        path = nested_write(obj, a, b, min_depth=1)
        self.classes.add('retained-mutate')
        if path is not None:
            self.nontrivial = True
            self._expect_unchanged(step, before, fired0, f'write {path} on an object handed out by a getter of the committed '
                                   f'{opname} transaction ({type(obj).__name__})',
                                   'retained-mutate/' + ('descriptor' if obj.is_descriptor_container else 'context-state'
                                                         if obj.is_context_state else 'state'), with_part=False)

    def step_published_mutate(self, step):
        _, sel, a, b = step
        if not self.published:
            return
        rec = self.published[sel % len(self.published)]
        before = full_snapshot(self.mdib)
        fired0 = self.fired
        path = nested_write(rec[0], a, b, min_depth=1)
        self.classes.add('published-mutate')
        if path is not None:
            rec[1] = C.canon(rec[0])  # the harness changed it on purpose
            self.nontrivial = True
            self._expect_unchanged(step, before, fired0, f'nested write {path} on a copy published by a commit',
                                   'published-mutate')

    def run(self, history):
        for step in history:
            getattr(self, f'step_{step[0]}')(step)
            self.check_published(step)
            if self.findings:
                break
        return self.findings


def st_history(inv, max_steps):
    op = MP.st_op(inv, multi=False, kw_hold=False)
    nested = st.one_of(st.none(), st.tuples(st.integers(0, 40), st.integers(0, 5)).map(list))
    steps = st.one_of(
        st.tuples(st.just('commit'), op, nested).map(list),
        st.tuples(st.just('commit'), op, nested).map(list),
        st.tuples(st.just('abort'), op, st.integers(0, 6), nested).map(list),
        st.tuples(st.just('abort'), op, st.integers(0, 6), nested).map(list),
        st.tuples(st.just('reject'), st.sampled_from(['wrong_type', 'dup_get', 'unknown', 'multistate_entity',
                                                      'add_existing', 'state_without_descr', 'ctx_unknown_modified',
                                                      'write_entities_partial', 'write_entities_partial',
                                                      'mk_ctx_existing', 'mk_ctx_existing_noadjust']),
                  st.booleans(), st.integers(0, 20), st.booleans()).map(list),
        st.tuples(st.just('commit_fail'), st.sampled_from(['ctx_remove_via_entity', 'dup_ctx_handle_add_state', 'ctx_remove_via_descriptor_tx']),
                  st.integers(0, 10)).map(list),
        st.tuples(st.just('entity_mutate'), st.integers(0, 200), st.integers(0, 40), st.integers(0, 5)).map(list),
        st.tuples(st.just('published_mutate'), st.integers(0, 50), st.integers(0, 40), st.integers(0, 5)).map(list),
        st.tuples(st.just('retained_mutate'), st.integers(0, 8), st.integers(0, 40), st.integers(0, 5)).map(list),
        st.tuples(st.just('entity_refresh'), st.integers(0, 200), op, st.integers(0, 40), st.integers(0, 5)).map(list),
    )
    dels = inv.deletable + [h for h, _c, _p in inv.pool]
    upd = {h: c for h, c in inv.updatable}
    cycle = st.tuples(st.sampled_from([h for h in inv.deletable if h in upd]), st.integers(0, 6), MP.IFACE, MP.IFACE).flatmap(
        lambda t: T.instance_spec(T.all_classes()[upd[t[0]]]).map(lambda spec: [
            ['commit', ['descr_update', t[0], spec, 'classic'], None],
            ['commit', ['descr_delete', t[0], t[2]], None],
            ['abort', ['descr_recreate', t[0], t[3]], t[1], None],
            ['commit', ['descr_recreate', t[0], t[3]], None]]))
    _ = dels
    refresh_ctx = st.sampled_from(range(len(inv.context_descriptors))).flatmap(lambda i: st.tuples(
        MP._state_spec(inv.context_descriptors[i][1]), st.sampled_from(['vf_ctx_0', 'vf_ctx_1', 'vf_ctx_3']),
        st.sampled_from(['Assoc', 'Dis', 'No']), MP.IFACE, st.integers(0, 40), st.integers(0, 5)).map(
        lambda t, i=i: [['entity_refresh', ['handle', inv.context_descriptors[i][0]],
                         ['ctx_new', inv.context_descriptors[i][0], t[1], t[0], t[2], t[3]], t[4], t[5]]]))
    blocks = st.one_of(steps.map(lambda s_: [s_]), steps.map(lambda s_: [s_]), steps.map(lambda s_: [s_]), cycle,
                       refresh_ctx)
    return st.lists(blocks, min_size=1, max_size=max_steps).map(lambda bl: [s_ for b in bl for s_ in b][:max_steps + 4])


def case_fn(ctx, history):
    r = Runner()
    findings = r.run(history)
    ctx.case(history, r.nontrivial, 'history', classes=tuple(r.classes))
    return findings


def shard(ctx, n, max_steps):
    inv = MP.inventory(FIXTURE)
    R.hyp_campaign(ctx, 'history', st_history(inv, max_steps), lambda h: case_fn(ctx, h), n)


def run(ctx):
    quick = ctx.tier == 'quick'
    R.run_shards(ctx, __name__, 'shard', [(40 if quick else 900, 10 if quick else 16)] * R.NPROC)


def replay(part, case):
    r = Runner()
    return r.run(case)
