"""C07 - Get responses are consistent snapshots under concurrent transactions.

Reader tasks (real threads driving the real consumer clients through the loop-back transport into the real provider
handlers) and writer tasks (MDIB programs) run under the cooperative scheduler of vf.sched: the harness owns the
interleaving at acquire / release granularity of ProviderMdib.mdib_lock and the transaction lock (`coarse`), optionally
also of the three table locks (`fine`).  Every committed MdibVersion is snapshotted while the committing task still
holds the lock; every response is compared with the snapshot of the version it states.
"""
from __future__ import annotations

from hypothesis import strategies as st

from vf import canon as C
from vf import loopback as L
from vf import run as R
from vf import sched as S
from vf import world as W
from vf.gen import mdibprog as MP

P = 'C07'
META = {
    'level': 'exploration',
    'rule': ('scenarios = 1-2 reader tasks x 1-2 Get requests (GetMdib / GetMdDescription / GetMdState / GetContextStates '
             'with generated handle lists) x 1-3 writer tasks x 1-3 transactions (state, context, descriptor '
             'create/update/delete, multi) x a schedule (choice list over the runnable tasks at every lock acquire / '
             'release); non-trivial = at least one transaction committed between the start and the end of a request; '
             'distinct by (scenario, executed schedule)'),
    'assumptions': ['interleavings are explored at the granularity of the instrumented locks (mdib_lock, transaction lock, '
                    'table locks); between two yield points a task runs alone',
                    'requests are sent through the in-process loop-back transport'],
}

FIXTURE = 'mdib_two_mds.xml'
REQUESTS = ('mdib', 'mddescription', 'mdstate', 'context')


# ------------------------------------------------------------------------------------------------- snapshots and reference
def snapshot(mdib):
    return {
        'vg': (mdib.mdib_version, mdib.sequence_id, mdib.instance_id),
        'descr': {d.Handle: (d.parent_handle, C.canon(d)) for d in mdib.descriptions.objects},
        'single': {s.DescriptorHandle: C.canon(s) for s in mdib.states.objects},
        'ctx': {s.Handle: (s.DescriptorHandle, C.canon(s)) for s in mdib.context_states.objects},
    }


def mds_of(snap, handle):
    seen = set()
    while handle in snap['descr'] and handle not in seen:
        seen.add(handle)
        parent = snap['descr'][handle][0]
        if parent is None:
            return handle
        handle = parent
    return None


def select(snap, which, handles):
    """Keys ('d'|'s'|'c', handle) a response at this snapshot must contain (reference written from the BICEPS rules)."""
    hl = handles or []
    want = set()
    if which == 'mdib':
        want |= {('d', h) for h in snap['descr']} | {('s', h) for h in snap['single']} | {('c', h) for h in snap['ctx']}
    elif which == 'mdstate':
        if not hl:
            want |= {('s', h) for h in snap['single']} | {('c', h) for h in snap['ctx']}
        for h in hl:
            if h in snap['ctx']:
                want.add(('c', h))
            elif h in snap['descr']:
                if h in snap['single']:
                    want.add(('s', h))
                want |= {('c', sh) for sh, (dh, _c) in snap['ctx'].items() if dh == h}
    elif which == 'context':
        if not hl:
            want |= {('c', h) for h in snap['ctx']}
        for h in hl:
            if h in snap['ctx']:
                want.add(('c', h))
            elif h in snap['descr'] and snap['descr'][h][0] is None:
                want |= {('c', sh) for sh, (dh, _c) in snap['ctx'].items() if mds_of(snap, dh) == h}
            elif h in snap['descr']:
                want |= {('c', sh) for sh, (dh, _c) in snap['ctx'].items() if dh == h}
    return want


def expected_content(snap, key):
    kind, h = key
    if kind == 'd':
        return snap['descr'][h]
    if kind == 's':
        return snap['single'][h]
    return snap['ctx'][h][1]


# ------------------------------------------------------------------------------------------------- generators
def st_handles(inv):
    descr = [h for h, _c, _p in inv.descriptors]
    ctx_descr = [h for h, _c in inv.context_descriptors]
    ctx_states = inv.context_states + [f'vf_ctx_{i}' for i in range(4)]
    pool = [h for h, _c, _p in inv.pool]
    handle = st.one_of(st.sampled_from(descr), st.sampled_from(ctx_descr), st.sampled_from(ctx_states),
                       st.sampled_from(inv.mds), st.sampled_from(pool), st.just('vf_unknown'))
    return st.one_of(st.none(), st.just([]), st.lists(handle, min_size=1, max_size=4))


def st_scenario(max_readers=2, max_writers=3):
    inv = MP.inventory(FIXTURE)
    op = MP.st_op(inv, descriptor_ops=True, context_ops=True, multi=True, kw_hold=False, aborts=False)
    request = st.tuples(st.sampled_from(REQUESTS), st_handles(inv)).map(list)
    return st.fixed_dictionaries({
        'setup': st.lists(op, max_size=3),
        'readers': st.lists(st.lists(request, min_size=1, max_size=2), min_size=1, max_size=max_readers),
        'writers': st.lists(st.lists(op, min_size=1, max_size=3), min_size=1, max_size=max_writers),
        'fine': st.booleans(),
    })


def st_targeted():
    """A request that names exactly the objects a concurrent transaction removes, creates or changes."""
    inv = MP.inventory(FIXTURE)
    dels = inv.deletable[:8]
    pool = list(range(len(inv.pool)))
    ctx = inv.context_states[:3]
    req = st.sampled_from(REQUESTS)
    deleted = st.tuples(req, st.sampled_from(dels), MP.IFACE, st.lists(st.sampled_from(dels + ['vf_unknown']), max_size=2)).map(
        lambda t: {'readers': [[[t[0], [t[1], *t[3]]]]], 'writers': [[['descr_delete', t[1], t[2]]]]})
    created = st.tuples(req, st.sampled_from(pool), MP.IFACE).map(
        lambda t: {'readers': [[[t[0], [inv.pool[t[1]][0]]]]], 'writers': [[['descr_create', t[1], t[2]]]]})
    parts = [deleted, deleted, created]
    if ctx:
        parts.append(st.tuples(req, st.sampled_from(ctx)).map(
            lambda t: {'readers': [[[t[0], [t[1]]]]], 'writers': [[['ctx_delete', t[1]]]]}))
    # one request for everything (no handle list) against one writer with one or two transactions, mostly context and
    # descriptor transactions (the MDIB program language has many more state operations than these)
    few = MP.st_op(inv, kinds=('metric',), descriptor_ops=True, context_ops=True, multi=False, kw_hold=False, aborts=False)
    ctx_or_descr = few.filter(lambda o: o[0] != 'state' and o[0] != 'state_multi' and o[0] != 'empty')
    parts.append(st.tuples(req, st.sampled_from([None, None, []]), st.lists(st.one_of(ctx_or_descr, ctx_or_descr, few),
                                                                             min_size=1, max_size=2)).map(
        lambda t: {'readers': [[[t[0], t[1]]]], 'writers': [t[2]]}))
    parts.append(parts[-1])
    return st.tuples(st.one_of(parts), st.booleans()).map(lambda t: dict(t[0], setup=[], fine=t[1]))


def st_case():
    return st.tuples(st.one_of(st_scenario(), st_targeted()), st.lists(st.integers(0, 5), min_size=6, max_size=40)).map(
        lambda t: dict(t[0], choices=t[1]))


# ------------------------------------------------------------------------------------------------- runner
class Runner:
    def __init__(self, case, default='continue'):
        from vf.props import c01
        c01.park_role_workers()
        L.reset_network()
        W.quiet_logging()
        self.case = case
        self.inv = MP.inventory(FIXTURE)
        self.world = W.World(W.fixture(FIXTURE))
        self.mdib = self.world.mdib
        setup = MP.Interp(self.mdib, self.inv, provider=self.world.provider)
        for op in case.get('setup', ()):
            self._run_op(setup, op)
        self.readers = [self.world.add_consumer(init_mdib=False)[0] for _ in case['readers']]
        self.sched = S.Sched(case.get('choices', ()), default=default)
        self.snaps = {}
        self.responses = []  # (reader index, request, version at start, version at end, parsed | exception)
        self.commits_inside = 0
        self._instrument(case.get('fine', False))
        self._record()

    def close(self):
        self._restore()
        self.world.close()

    # ---- instrumentation (instance attributes only; undone in close)
    def _instrument(self, fine):
        mdib = self.mdib
        self._saved = [(mdib, 'mdib_lock', mdib.mdib_lock), (mdib, '_tr_lock', mdib._tr_lock)]  # noqa: SLF001
        mdib.mdib_lock = S.SchedLock(self.sched, 'mdib_lock', on_release=lambda _l: self._record())
        mdib._tr_lock = S.SchedLock(self.sched, 'tr_lock', reentrant=False, yield_when_free=False,
                                     yield_after_release=False)  # noqa: SLF001
        # reading the version group is a switch point as well: a reader that does not keep writers out while it
        # collects its answer (wrong lock, no lock) can then be overtaken between collecting and labelling
        sched = self.sched
        base = type(mdib)
        self._saved_class = base

        def version_group(this):
            sched.yield_point('read:mdib_version_group')
            return base.mdib_version_group.fget(this)
        mdib.__class__ = type(base.__name__, (base,), {'mdib_version_group': property(version_group)})
        self._tables = []
        for name in ('descriptions', 'states', 'context_states'):
            table = getattr(mdib, name)
            # coarse: the table locks only block (a task waiting for one is not runnable), they add no switch points
            lock = S.SchedLock(self.sched, f'{name}.lock', yield_nested=True) if fine else S.SchedLock(
                self.sched, f'{name}.lock', yield_when_free=False, yield_after_release=False)
            self._tables.append((table, table._lock))  # noqa: SLF001
            self._set_table_lock(table, lock)

    @staticmethod
    def _set_table_lock(table, lock):
        table._lock = lock  # noqa: SLF001
        for value in vars(table).values():
            if hasattr(value, 'set_lock'):
                value.set_lock(lock)

    def _restore(self):
        for obj, name, value in self._saved:
            setattr(obj, name, value)
        if getattr(self, '_saved_class', None) is not None:
            self.mdib.__class__ = self._saved_class
        for table, lock in self._tables:
            self._set_table_lock(table, lock)

    def _record(self):
        v = self.mdib.mdib_version
        if v not in self.snaps:
            self.snaps[v] = snapshot(self.mdib)

    # ---- tasks
    @staticmethod
    def _run_op(interp, op):
        try:
            interp.run(op)
        except Exception as ex:  # noqa: BLE001
            if not R.exc_in_library(ex):
                raise

    def _writer(self, ops):
        interp = MP.Interp(self.mdib, self.inv, provider=self.world.provider)

        def body():
            for op in ops:
                self._run_op(interp, op)
        return body

    def _reader(self, idx, requests):
        consumer = self.readers[idx]

        def body():
            for which, handles in requests:
                v0 = self.mdib.mdib_version
                try:
                    parsed = self._request(consumer, which, handles)
                except Exception as ex:  # noqa: BLE001
                    if not R.exc_in_library(ex):
                        raise
                    parsed = ex
                v1 = self.mdib.mdib_version
                self.responses.append((idx, [which, handles], v0, v1, parsed))
        return body

    @staticmethod
    def _request(consumer, which, handles):
        """-> (version group, {key: content canon}, [keys in order])"""
        if which == 'mdib':
            res = consumer.client('Get').get_mdib()
            descriptors, states = res.result
            items = [(('d', d.Handle), (d.parent_handle, C.canon(d))) for d in descriptors]
            items += [(('c', s.Handle) if s.is_context_state else ('s', s.DescriptorHandle), C.canon(s)) for s in states]
        elif which == 'mddescription':
            res = consumer.client('Get').get_md_description(handles)
            node = res.p_msg.msg_node
            md_descr = [n for n in node if n.tag.endswith('}MdDescription')]
            descriptors = res.msg_reader._read_md_description_node(md_descr[0]) if md_descr else []  # noqa: SLF001
            items = [(('d', d.Handle), (d.parent_handle, C.canon(d))) for d in descriptors]
        elif which == 'mdstate':
            res = consumer.client('Get').get_md_state(handles)
            items = [(('c', s.Handle) if s.is_context_state else ('s', s.DescriptorHandle), C.canon(s))
                     for s in res.result.MdState.State]
        else:
            res = consumer.client('Context').get_context_states(handles)
            items = [(('c', s.Handle), C.canon(s)) for s in res.result.ContextState]
        g = res.mdib_version_group
        return (g.mdib_version, g.sequence_id, g.instance_id), dict(items), [k for k, _ in items]

    # ---- run + judge
    def run(self):
        for i, requests in enumerate(self.case['readers']):
            self.sched.spawn(f'r{i}', self._reader(i, requests))
        for i, ops in enumerate(self.case['writers']):
            self.sched.spawn(f'w{i}', self._writer(ops))
        self.sched.run()
        for t in self.sched.tasks:
            if t.exc is not None:
                raise t.exc
        return self.judge()

    def judge(self):
        out = []
        for idx, (which, handles), v0, v1, parsed in self.responses:
            name = {'mdib': 'GetMdib', 'mddescription': 'GetMdDescription', 'mdstate': 'GetMdState',
                    'context': 'GetContextStates'}[which]
            if v1 > v0:
                self.commits_inside += 1
            where = f'{name}({handles}) by r{idx}, MdibVersion {v0}->{v1} during the request'
            if isinstance(parsed, Exception):
                out.append((f'{P}/{name}/raises/{R.exc_sig(parsed)}', f'{where}: {type(parsed).__name__}: {parsed}'[:300]))
                continue
            vg, content, keys = parsed
            snap = self.snaps.get(vg[0])
            if snap is None or not (v0 <= vg[0] <= v1):
                out.append((f'{P}/{name}/version-never-current', f'{where}: response states MdibVersion {vg[0]}'))
                continue
            if vg != snap['vg']:
                out.append((f'{P}/{name}/version-group', f'{where}: version group {vg} but the MDIB had {snap["vg"]}'))
            dups = {k for k in keys if keys.count(k) > 1}
            if dups:
                out.append((f'{P}/{name}/returned-twice', f'{where}: {sorted(dups)[:3]}'))
            if which == 'mddescription':
                out += self._judge_description(name, where, handles, snap, content)
                continue
            want = select(snap, which, handles)
            missing, extra = want - set(content), set(content) - want
            if missing or extra:
                out.append((f'{P}/{name}/selection-not-of-stated-version',
                            f'{where}: response states MdibVersion {vg[0]}; missing {sorted(missing)[:3]}, '
                            f'not selected at that version {sorted(extra)[:3]}'))
                continue
            for k in keys:
                exp = expected_content(snap, k)
                if content[k] != exp:
                    d = C.diff(exp, content[k])
                    out.append((f'{P}/{name}/content-not-of-stated-version',
                                f'{where}: response states MdibVersion {vg[0]} but {k} differs from that version: '
                                f'{[list(map(str, x)) for x in d[:2]]}'))
                    break
        return out

    def _judge_description(self, name, where, handles, snap, content):
        out = []
        hl = handles or []
        required_mds = {h for h, (p, _c) in snap['descr'].items() if p is None} if not hl else {
            mds_of(snap, h) for h in hl if h in snap['descr']}
        returned = {k[1] for k in content}
        returned_mds = {h for h in returned if h in snap['descr'] and snap['descr'][h][0] is None}
        unknown = sorted(h for h in returned if h not in snap['descr'])
        if unknown:
            return [(f'{P}/{name}/selection-not-of-stated-version',
                     f'{where}: descriptors {unknown[:3]} did not exist at the stated MdibVersion {snap["vg"][0]}')]
        if required_mds - returned_mds:
            out.append((f'{P}/{name}/selection-not-of-stated-version',
                        f'{where}: MDS {sorted(required_mds - returned_mds)} missing for MdibVersion {snap["vg"][0]}'))
        if not required_mds and returned:
            out.append((f'{P}/{name}/selection-not-of-stated-version',
                        f'{where}: no requested handle existed at the stated MdibVersion {snap["vg"][0]}, but '
                        f'{len(returned)} descriptors were returned'))
        subtree = {h for h in snap['descr'] if mds_of(snap, h) in returned_mds}
        if subtree - returned:
            out.append((f'{P}/{name}/selection-not-of-stated-version',
                        f'{where}: descendants {sorted(subtree - returned)[:3]} of returned MDS missing for MdibVersion '
                        f'{snap["vg"][0]}'))
        for (_k, h), c in content.items():
            if c != snap['descr'][h]:
                d = C.diff(snap['descr'][h], c)
                out.append((f'{P}/{name}/content-not-of-stated-version',
                            f'{where}: descriptor {h} differs from MdibVersion {snap["vg"][0]}: '
                            f'{[list(map(str, x)) for x in d[:2]]}'))
                break
        return out


def execute(case, default='continue'):
    r = Runner(case, default=default)
    try:
        findings = r.run()
        info = {'taken': list(r.sched.taken), 'branching': list(r.sched.branching), 'inside': r.commits_inside,
                'switches': sum(1 for a, b in zip(r.sched.trace, r.sched.trace[1:]) if a[0] != b[0]),
                'kinds': sorted({resp[1][0] for resp in r.responses})}
    finally:
        r.close()
    return findings, info


def case_fn(ctx, case):
    findings, info = execute(case)
    key = {k: case[k] for k in ('setup', 'readers', 'writers', 'fine')}
    key['taken'] = info['taken']
    ctx.case(key, info['inside'] > 0, 'schedule',
             classes=tuple(info['kinds']) + (('fine',) if case.get('fine') else ('coarse',)) + (
                 f'switches>={min(info["switches"], 6)}',))
    return findings


def shard_random(ctx, n):
    R.hyp_campaign(ctx, 'schedule', st_case(), lambda c: case_fn(ctx, c), n, shrink_s=40 if ctx.tier == 'quick' else 200)


# ---- exhaustive enumeration of all schedules (coarse locks) of small scenarios
def small_scenarios(seed: int, n: int):
    """n scenarios: 1 reader x 1 request x 1-2 writers x 1-2 transactions, drawn with Hypothesis from the same strategies."""
    from hypothesis import HealthCheck, Phase, given, settings
    from hypothesis import seed as hseed
    inv = MP.inventory(FIXTURE)
    op = MP.st_op(inv, descriptor_ops=True, context_ops=True, multi=False, kw_hold=False, aborts=False)
    request = st.tuples(st.sampled_from(REQUESTS), st_handles(inv)).map(list)
    general = st.fixed_dictionaries({
        'setup': st.lists(op, max_size=2),
        'readers': st.lists(st.lists(request, min_size=1, max_size=1), min_size=1, max_size=1),
        'writers': st.lists(st.lists(op, min_size=1, max_size=2), min_size=1, max_size=2),
        'fine': st.just(False)})
    # two in three scenarios are targeted ones (a request against the very objects / kinds one writer changes): their
    # schedule spaces are small, so the enumeration is complete for them
    strat = st.one_of(general, st_targeted().map(lambda c: dict(c, fine=False)), st_targeted().map(lambda c: dict(c, fine=False)))
    got = []

    @hseed(seed)
    @settings(max_examples=n, database=None, deadline=None, phases=[Phase.generate],
              suppress_health_check=list(HealthCheck))
    @given(strat)
    def collect(s):
        got.append(s)
    collect()
    return got[:n]


def systematic_scenarios(seed: int, part: int, parts: int):
    """Every request kind (no handle list) x one writer with one transaction of every basic kind: the schedule spaces are
    small, so all their schedules are enumerated.  The operations' contents are drawn with Hypothesis (seeded)."""
    from hypothesis import HealthCheck, Phase, given, settings
    from hypothesis import seed as hseed
    inv = MP.inventory(FIXTURE)
    op = MP.st_op(inv, descriptor_ops=True, context_ops=True, multi=False, kw_hold=False, aborts=False)
    kinds = ['ctx_update', 'ctx_new', 'set_location', 'descr_update', 'descr_create', 'descr_delete', 'state', 'ctx_delete']
    combos = [(r, k) for r in REQUESTS for k in kinds]
    mine = combos[part::parts]
    out = []
    for i, (req, kind) in enumerate(mine):
        got = []

        @hseed(seed + i)
        @settings(max_examples=2, database=None, deadline=None, phases=[Phase.generate], suppress_health_check=list(HealthCheck))
        @given(op.filter(lambda o, kind=kind: o[0] == kind))
        def collect(o):
            got.append(o)
        collect()
        for o in got[:2 if kind in ('descr_update', 'ctx_update') else 1]:
            out.append({'setup': [], 'readers': [[[req, None]]], 'writers': [[o]], 'fine': False})
    return out


def shard_dfs(ctx, seed, n, max_schedules, part=0, parts=1):
    for scenario in systematic_scenarios(seed, part, parts) + small_scenarios(seed, n):
        choices = []
        count = 0
        complete = False
        while choices is not None and count < max_schedules and not ctx.out_of_budget():
            case = dict(scenario, choices=choices)
            findings, info = execute(case, default='first')
            count += 1
            key = dict(scenario, taken=info['taken'])
            ctx.case(key, info['inside'] > 0, 'dfs', classes=tuple(info['kinds']) + ('coarse', 'dfs'))
            for sig, detail in findings:
                ctx.finding(sig, detail, dict(scenario, choices=info['taken']), 'dfs')
            choices = S.next_dfs(info['taken'], info['branching'])
            if choices is None:
                complete = True
        ctx.count('dfs-scenarios-complete' if complete else 'dfs-scenarios-truncated')
        ctx.count('dfs-schedules', count)


def shard(ctx, which, *args):
    if which == 'random':
        shard_random(ctx, *args)
    else:
        shard_dfs(ctx, *args)


def run(ctx):
    quick = ctx.tier == 'quick'
    jobs = [("random", 18 if quick else 250)] * (R.NPROC - 6)
    jobs += [('dfs', ctx.sub_seed('dfs', i) % 2**32, 3 if quick else 12, 40 if quick else 3000, i, 6) for i in range(6)]
    R.run_shards(ctx, __name__, 'shard', jobs)


def replay(part, case):
    ctx = R.Ctx(P, 'quick', 0, {})
    if part == 'dfs':
        return execute(case, default='first')[0]
    return case_fn(ctx, case)
