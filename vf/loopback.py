"""In-process loop-back transport (L1).

FakeHttpServer stands where the library expects an HttpServerThreadBase (`shared_http_server`), LoopbackSoapClient /
LoopbackSoapClientAsync stand where it expects SoapClient / SoapClientAsync (`soap_client_class`).  The real
message preparation, serialisation, MessageConverterMiddleware, dispatchers and readers run unchanged; only the
socket is replaced by a function call.  Every message is logged and can be validated, held, dropped, duplicated,
reordered or answered with a generated fault.
"""
from __future__ import annotations

import threading
from http.client import NotConnected
from urllib.parse import urlparse

from lxml import etree

from sdc11073.dispatch.pathelementregistry import PathElementRegistry
from sdc11073.exceptions import InvalidPathError
from sdc11073.pysoap.soapclient import HTTPReturnCodeError, SoapClient
from sdc11073.pysoap.soapclient_async import SoapClientAsync
from sdc11073.pysoap.soapenvelope import Fault


class Headers(dict):
    """Case-insensitive header mapping (the library reads both 'Accept-Encoding' and 'accept-encoding')."""

    def __init__(self, data=None):
        super().__init__()
        for k, v in (data or {}).items():
            self[k] = v

    def __setitem__(self, k, v):
        super().__setitem__(k.lower(), v)

    def __getitem__(self, k):
        return super().__getitem__(k.lower())

    def get(self, k, default=None):
        return super().get(k.lower(), default)

    def __contains__(self, k):
        return super().__contains__(k.lower())


class WireEntry:
    __slots__ = ('seq', 'kind', 'netloc', 'path', 'request', 'status', 'response', 'action', 'error', 'client_args',
                 'scheme', 'thread')

    def __init__(self, **kw):
        for s in self.__slots__:
            setattr(self, s, kw.get(s))

    def request_root(self):
        return etree.fromstring(self.request) if self.request else None

    def response_root(self):
        return etree.fromstring(self.response) if self.response else None


def action_of(xml: bytes) -> str | None:
    try:
        root = etree.fromstring(xml)
    except etree.XMLSyntaxError:
        return None
    el = root.find('{http://www.w3.org/2003/05/soap-envelope}Header/{http://www.w3.org/2005/08/addressing}Action')
    return el.text if el is not None else None


class Network:
    """Registry of fake servers + wire log + interception hook."""

    def __init__(self):
        self.servers = {}  # netloc -> FakeHttpServer
        self.aliases = {'localhost': '127.0.0.1'}
        self.connect_hook = None  # callable(client) at every connect (C19: TLS handshake emulation)
        self.log = []  # WireEntry
        self.clients = []  # constructor records of every soap client: dict(netloc, ssl_context, cls, owner)
        self.interceptor = None  # callable(entry) -> None | ('status', code) | ('raise', exc) | ('drop',) | ('hold',) | ('rewrite', bytes)
        self.on_delivered = None  # callable(entry) after a request was handled
        self.held = []  # entries withheld by the interceptor ('hold'): (entry, headers)
        self.pre_handle = None
        self.post_handle = None
        self.async_stall = None  # coroutine function(client, path) awaited before a delivery of the asynchronous client
        self.response_rewriter = None  # callable(entry, response bytes) -> bytes: the peer answers something equivalent
        self._lock = threading.RLock()
        self._port = 40000
        self.validator = None  # optional callable(bytes, what) -> list[str]; set by checks that validate the wire
        self.schema_problems = []

    def new_port(self) -> int:
        with self._lock:
            self._port += 1
            return self._port

    def register(self, server):
        self.servers[server.netloc] = server

    def find_server(self, netloc: str):
        """The server listening at netloc; host names in `aliases` resolve to 127.0.0.1 (alternative host names)."""
        server = self.servers.get(netloc)
        if server is None and ':' in netloc:
            host, port = netloc.rsplit(':', 1)
            if host in self.aliases:
                server = self.servers.get(f'{self.aliases[host]}:{port}')
        return server

    def unregister(self, server):
        self.servers.pop(server.netloc, None)

    # ------------------------------------------------------------------------------------------------ delivery
    def deliver_post(self, client, path: str, xml: bytes, headers: dict, bypass_interceptor: bool = False):
        """Returns (status, reason, response_bytes); raises what a real client would raise for transport faults."""
        entry = WireEntry(seq=len(self.log), kind='POST', netloc=client.netloc, path=path, request=bytes(xml),
                          action=action_of(xml), scheme='https' if client._ssl_context is not None else 'http',  # noqa: SLF001
                          thread=threading.current_thread().name)
        with self._lock:
            self.log.append(entry)
        if self.validator is not None:
            self.schema_problems.extend(self.validator(entry.request, f'request {entry.action}'))
        decision = None
        if self.interceptor is not None and not bypass_interceptor:
            decision = self.interceptor(entry)
        if decision is not None:
            kind = decision[0]
            entry.error = decision
            if kind == 'raise':
                raise decision[1]
            if kind == 'status':
                return decision[1], 'injected', b''
            if kind == 'drop':
                return 202, 'dropped', b''
            if kind == 'hold':
                self.held.append((entry, Headers(headers)))
                return 202, 'held', b''
            if kind == 'rewrite':  # an equivalent message takes the place of the one that was sent
                entry.request = bytes(decision[1])
        return self._handle(entry, headers)

    def _handle(self, entry, headers):
        server = self.find_server(entry.netloc)
        if server is None or server.stopped:
            entry.error = ('raise', 'ConnectionRefusedError')
            raise ConnectionRefusedError(f'no server at {entry.netloc}')
        try:
            component = server.dispatcher.get_instance(_first_path_element(entry.path))
        except InvalidPathError as ex:
            entry.status = ex.status
            return ex.status, ex.reason, b''
        if self.pre_handle is not None:
            self.pre_handle(entry)  # e.g. provider commits while a request is in flight, before it is answered
        status, reason, response = component.do_post(Headers(headers), entry.path, ('127.0.0.1', 50000), entry.request)
        if self.post_handle is not None:
            self.post_handle(entry)  # ... or after the answer was computed, before the requester sees it
        if isinstance(response, str):
            response = response.encode('utf-8')
        if self.response_rewriter is not None and response:
            response = self.response_rewriter(entry, response)
        entry.status = status
        entry.response = response
        if self.validator is not None and response:
            self.schema_problems.extend(self.validator(response, f'response to {entry.action}'))
        if self.on_delivered is not None:
            self.on_delivered(entry)
        return status, reason, response

    def release(self, held_index: int = 0):
        """Deliver a withheld request now (its sender has long received '202')."""
        entry, headers = self.held.pop(held_index)
        return self._handle(entry, headers)

    def replay(self, entry, headers=None):
        """Deliver a logged request once more (duplicate / late delivery)."""
        dup = WireEntry(seq=len(self.log), kind='POST', netloc=entry.netloc, path=entry.path, request=entry.request,
                        action=entry.action, scheme=entry.scheme)
        self.log.append(dup)
        return self._handle(dup, headers or {'Content-type': 'application/soap+xml; charset=utf-8'})

    def deliver_get(self, client, url: str):
        entry = WireEntry(seq=len(self.log), kind='GET', netloc=client.netloc, path=url,
                          scheme='https' if client._ssl_context is not None else 'http')  # noqa: SLF001
        self.log.append(entry)
        server = self.find_server(client.netloc)
        if server is None or server.stopped:
            raise ConnectionRefusedError(f'no server at {client.netloc}')
        component = server.dispatcher.get_instance(_first_path_element(url))
        status, _reason, response, _ctype = component.do_get(Headers({'Host': client.netloc}), url, ('127.0.0.1', 50000))
        if isinstance(response, str):
            response = response.encode('utf-8')
        entry.status = status
        entry.response = response
        return response


def _first_path_element(path: str) -> str:
    parsed = urlparse(path)
    elements = parsed.path.split('/')
    if len(elements[0]) > 0:
        return elements[0]
    return elements[1] if len(elements) > 1 else ''


NET = Network()


def reset_network() -> Network:
    global NET  # noqa: PLW0603
    NET = Network()
    return NET


class FakeHttpServer:
    """Has what SdcProvider / SdcConsumer use of HttpServerThreadBase."""

    def __init__(self, ip: str = '127.0.0.1', scheme: str = 'http', net: Network | None = None):
        self.net = net or NET
        self.my_ipaddress = ip
        self.server_port = self.net.new_port()
        self.scheme = scheme
        self.dispatcher = PathElementRegistry()
        self.started_evt = threading.Event()
        self.started_evt.set()
        self.stopped = False
        self.net.register(self)

    @property
    def netloc(self) -> str:
        return f'{self.my_ipaddress}:{self.server_port}'

    @property
    def base_url(self) -> str:
        return f'{self.scheme}://{self.my_ipaddress}:{self.server_port}/'

    def start(self):
        pass

    def stop(self):
        self.stopped = True
        self.net.unregister(self)


class _Resp:
    def __init__(self, status, reason):
        self.status = status
        self.reason = reason


class _FakeSock:
    def __init__(self, name):
        self._name = name

    def getsockname(self):
        return self._name

    def getpeercert(self, binary_form=False):
        return b'' if binary_form else {}


class LoopbackSoapClient(SoapClient):
    """The real SoapClient with the socket replaced by Network.deliver_post."""

    def __init__(self, netloc, socket_timeout, logger, ssl_context, sdc_definitions, msg_reader,  # noqa: PLR0913
                 supported_encodings=None, request_encodings=None, chunk_size=0):
        super().__init__(netloc, socket_timeout, logger, ssl_context, sdc_definitions, msg_reader,
                         supported_encodings, request_encodings, chunk_size)
        self._connected = False
        self._fake_sock = None
        NET.clients.append({'netloc': netloc, 'ssl_context': ssl_context, 'cls': type(self).__name__, 'obj': self})

    @property
    def sock(self):
        return self._fake_sock

    def connect(self):
        self._has_connection_error = False
        server = NET.find_server(self._netloc)
        if server is None or server.stopped:
            raise ConnectionRefusedError(f'no server at {self._netloc}')
        if NET.connect_hook is not None:
            NET.connect_hook(self)
        self._connected = True
        self.sock_name = ('127.0.0.1', 50000 + len(NET.clients))
        self._fake_sock = _FakeSock(self.sock_name)

    def _close_without_lock(self):
        self.sock_name = None
        self._connected = False
        self._fake_sock = None

    def is_closed(self) -> bool:
        return not self._connected

    def _send_soap_request(self, path, xml, log_msg):
        headers = {'Host': self._netloc, 'Content-type': 'application/soap+xml; charset=utf-8', 'user_agent': 'pysoap',
                   'Connection': 'keep-alive', 'Content-Length': str(len(xml))}
        if self.supported_encodings:
            headers['Accept-Encoding'] = ','.join(self.supported_encodings)
        try:
            status, reason, content = NET.deliver_post(self, path, xml, headers)
        except OSError as ex:
            if isinstance(ex, (ConnectionRefusedError, TimeoutError)):
                raise
            self._has_connection_error = True
            self._close_without_lock()
            raise NotConnected from ex
        if status >= 300:  # noqa: PLR2004  (same handling as the real client)
            try:
                tmp = self._msg_reader.read_received_message(content)
            except etree.XMLSyntaxError as ex:
                raise HTTPReturnCodeError(status, reason, None) from ex
            else:
                soap_fault = Fault.from_node(tmp.p_msg.msg_node)
                raise HTTPReturnCodeError(status, reason, soap_fault)
        return _Resp(status, reason), content

    def get_from_url(self, url: str, msg: str) -> bytes:  # noqa: ARG002
        if self.is_closed() and not self._has_connection_error:
            self.connect()
        if self.is_closed():
            raise NotConnected
        if not url.startswith('/'):
            url = '/' + url
        return NET.deliver_get(self, url)


class _FakeAsyncResponse:
    def __init__(self, status, reason, content):
        self.status = status
        self.reason = reason
        self._content = content

    async def text(self):
        return self._content.decode('utf-8') if self._content else ''

    async def __aenter__(self):
        return self

    async def __aexit__(self, *exc):
        return False


class _LazyAsyncResponse(_FakeAsyncResponse):
    """The request goes out when the `async with` block is entered; NET.async_stall (a coroutine function) can hold one
    delivery back without blocking the event loop - a peer that is slow to answer."""

    def __init__(self, client, path, data, headers):
        super().__init__(None, None, None)
        self._args = (client, path, data, headers)

    async def __aenter__(self):
        if NET.async_stall is not None:
            await NET.async_stall(self._args[0], self._args[1])
        self.status, self.reason, self._content = NET.deliver_post(*self._args)
        return self


class _FakeSession:
    def __init__(self, client):
        self._client = client

    def post(self, path, data=None, headers=None):
        headers = dict(headers or {})
        headers.setdefault('Host', self._client.netloc)
        return _LazyAsyncResponse(self._client, path, data, headers)

    async def close(self):
        return None


class LoopbackSoapClientAsync(SoapClientAsync):
    """The real SoapClientAsync with the aiohttp session replaced by Network.deliver_post."""

    def __init__(self, netloc, socket_timeout, logger, ssl_context, sdc_definitions, msg_reader,  # noqa: PLR0913
                 supported_encodings=None, request_encodings=None, chunk_size=0):
        super().__init__(netloc, socket_timeout, logger, ssl_context, sdc_definitions, msg_reader,
                         supported_encodings, request_encodings, chunk_size)
        NET.clients.append({'netloc': netloc, 'ssl_context': ssl_context, 'cls': type(self).__name__, 'obj': self})

    async def _mk_http_connection(self):
        return _FakeSession(self)

    # the synchronous API is used for SubscriptionEnd by some code paths
    def post_message_to(self, path, created_message, msg='', request_manipulator=None, validate=True):  # noqa: ARG002
        xml = created_message.serialize(request_manipulator=request_manipulator, validate=validate)
        status, reason, content = NET.deliver_post(self, path, xml, {})
        if not content:
            return None
        message_data = self._msg_reader.read_received_message(content)
        if status >= 300:  # noqa: PLR2004
            raise HTTPReturnCodeError(status, reason, Fault.from_node(message_data.p_msg.msg_node))
        return message_data
