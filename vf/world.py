"""A provider (and optionally consumers) wired together over the in-process loop-back transport."""
from __future__ import annotations

import logging
import os
import uuid

from vf import loopback as L
from vf import vclock

FIXTURES = os.path.join(os.path.dirname(os.path.abspath(__file__)), 'fixtures')
REPO = os.environ.get('VERIF_REPO', '/repo')


def quiet_logging():
    logging.disable(logging.CRITICAL)


def _with_limit_alert_condition(xml: bytes) -> bytes:
    """tests/mdib_two_mds.xml plus a LimitAlertCondition (with its state) in the alert system of vmd0."""
    descr = (b'<AlertCondition xsi:type="LimitAlertConditionDescriptor" Kind="Phy" Priority="Hi" Handle="lac0.vmd0.mds0" '
             b'DescriptorVersion="0" SafetyClassification="MedA"><Type Code="196672"/><Source>mds0</Source>'
             b'<MaxLimits Lower="1" Upper="9"/></AlertCondition>')
    state = (b'<State xsi:type="LimitAlertConditionState" MonitoredAlertLimits="All" ActivationState="On" StateVersion="0" '
             b'DescriptorHandle="lac0.vmd0.mds0" DescriptorVersion="0"><Limits Lower="2" Upper="8"/></State>')
    anchor_d = b'<AlertSignal ConditionSignaled="ac0.vmd0.mds0" Manifestation="Aud" Latching="false" Handle="as0.vmd0.mds0" '
    anchor_s = b'<State xsi:type="AlertConditionState" DeterminationTime="1579170261104" ActivationState="On" StateVersion="0" DescriptorHandle="ac0.vmd0.mds0"'
    if xml.count(anchor_d) != 1 or xml.count(anchor_s) != 1:
        raise RuntimeError('tests/mdib_two_mds.xml changed: cannot derive the fixture with a LimitAlertCondition')
    return xml.replace(anchor_d, descr + anchor_d).replace(anchor_s, state + anchor_s)


def _with_more_contexts(xml: bytes) -> bytes:
    """tests/mdib_two_mds.xml plus an ensemble and a workflow context descriptor in the system context of mds0."""
    anchor = b'<LocationContext Handle="LC.mds0" DescriptorVersion="0"/>'
    if xml.count(anchor) != 1:
        raise RuntimeError('tests/mdib_two_mds.xml changed: cannot derive the fixture with more context descriptors')
    return xml.replace(anchor, anchor + b'<EnsembleContext Handle="EC.mds0" DescriptorVersion="0"/>'
                                        b'<WorkflowContext Handle="WC.mds0" DescriptorVersion="0"/>')


def fixture(name: str) -> bytes:
    if name == 'mdib_two_mds_limit.xml':
        return _with_limit_alert_condition(fixture('mdib_two_mds.xml'))
    if name == 'mdib_two_mds_ctx.xml':
        return _with_more_contexts(fixture('mdib_two_mds.xml'))
    for base in (FIXTURES, os.path.join(REPO, 'tests')):
        p = os.path.join(base, name)
        if os.path.exists(p):
            with open(p, 'rb') as f:
                return f.read()
    raise FileNotFoundError(name)


class FakeWsDiscovery:
    def __init__(self, ip='127.0.0.1'):
        self.active_address = ip
        self.published = []
        self.cleared = []

    def publish_service(self, epr, types, scopes, x_addrs):
        self.published.append((epr, types, scopes, x_addrs))

    def clear_service(self, epr):
        self.cleared.append(epr)


_VT = None


def virtual_time() -> vclock.VirtualTime:
    """One virtual clock per process for the library's background loops (housekeeping, renew)."""
    global _VT  # noqa: PLW0603
    if _VT is None:
        _VT = vclock.VirtualTime().install('sdc11073.provider.subscriptionmgr_base', 'sdc11073.consumer.subscription')
    return _VT


class World:
    def __init__(self, mdib_xml: bytes, async_mgr: bool = False, validate: bool = True,  # noqa: PLR0913
                 role_provider: bool = True, ssl_provider=None, max_subscription_duration: int = 7200,
                 sub_mgr_classes: dict | None = None, epr=None, sequence_id: str | None = None,
                 instance_id: int | None = 1, shared_server=None, alternative_hostname=None,
                 periodic_reports_interval=None, own_server: bool = False, soap_client_class=None):
        import sdc11073.definitions_sdc  # noqa: F401  (registers the protocol definition)
        from sdc11073.mdib import ProviderMdib
        from sdc11073.provider import SdcProvider
        from sdc11073.provider.providerimpl import (
            provider_components_async_factory,
            provider_components_sync_factory,
        )
        from sdc11073.xml_types.dpws_types import ThisDeviceType, ThisModelType
        quiet_logging()
        self.vt = virtual_time()
        self.net = L.NET
        self.wsd = FakeWsDiscovery()
        self.validate = validate
        mdib = ProviderMdib.from_string(mdib_xml)
        mdib.instance_id = instance_id
        if sequence_id is not None:
            mdib.sequence_id = sequence_id
        comps = provider_components_async_factory() if async_mgr else provider_components_sync_factory()
        comps.soap_client_class = soap_client_class or (L.LoopbackSoapClientAsync if async_mgr else L.LoopbackSoapClient)
        if sub_mgr_classes:
            comps.subscriptions_manager_class = dict(sub_mgr_classes)
        role = None
        if role_provider:
            from tutorial.productandroles.exampleproduct import EXAMPLE_ROLE_PROVIDER_COMPONENTS
            role = EXAMPLE_ROLE_PROVIDER_COMPONENTS
        model = ThisModelType(manufacturer='verif', manufacturer_url='www.example.org', model_name='M',
                              model_number='1', model_url='www.example.org/m', presentation_url='www.example.org/p')
        device = ThisDeviceType(friendly_name='verif device', firmware_version='0', serial_number='1')
        self.provider = SdcProvider(self.wsd, model, device, mdib, epr or uuid.UUID(int=0x1234 + L.NET.new_port()),
                                    validate, ssl_context_container=ssl_provider,
                                    max_subscription_duration=max_subscription_duration, components=comps,
                                    role_provider_components=role, alternative_hostname=alternative_hostname)
        scheme = 'https' if ssl_provider is not None else 'http'
        if own_server:  # the provider creates its server itself (the check has replaced the server class in the module)
            self.provider.start_all(start_rtsample_loop=False, periodic_reports_interval=periodic_reports_interval)
            self.provider_server = self.provider._http_server  # noqa: SLF001
        else:
            self.provider_server = shared_server or L.FakeHttpServer(scheme=scheme)
            self.provider.start_all(start_rtsample_loop=False, shared_http_server=self.provider_server,
                                    periodic_reports_interval=periodic_reports_interval)
        self.mdib = mdib
        self.consumers = []
        self.closed = False

    @property
    def provider_address(self) -> str:
        return self.provider.get_xaddrs()[0]

    def add_consumer(self, init_mdib: bool = True, validate: bool | None = None, ssl_consumer=None,  # noqa: PLR0913
                     force_ssl_connect: bool = False, shared_server=None, not_subscribed_actions=None,
                     alternative_hostname=None, own_server: bool = False, soap_client_class=None,
                     deferred: bool = False):
        from sdc11073.consumer.consumerimpl import SdcConsumer, default_components_factory
        from sdc11073.dispatch import RequestDispatcher
        from sdc11073.mdib.consumermdib import ConsumerMdib
        comps = default_components_factory()
        comps.soap_client_class = soap_client_class or L.LoopbackSoapClient
        if not deferred:
            comps.action_dispatcher_class = RequestDispatcher  # notifications are handled in the delivering thread
        consumer = SdcConsumer(self.provider_address, self.mdib.sdc_definitions, ssl_consumer,
                               validate=self.validate if validate is None else validate, components=comps,
                               epr=uuid.UUID(int=0x9999 + L.NET.new_port()), force_ssl_connect=force_ssl_connect,
                               alternative_hostname=alternative_hostname)
        scheme = 'https' if ssl_consumer is not None else 'http'
        if own_server:
            self.consumers.append((consumer, None, None))  # (so close() stops what was started even if start_all raises)
            consumer.start_all(not_subscribed_actions=not_subscribed_actions)
            server = consumer._http_server  # noqa: SLF001
            self.consumers.pop()
        else:
            server = shared_server or L.FakeHttpServer(scheme=scheme)
            self.consumers.append((consumer, None, server))
            consumer.start_all(shared_http_server=server, not_subscribed_actions=not_subscribed_actions)
            self.consumers.pop()
        cmdib = None
        if init_mdib:
            cmdib = ConsumerMdib(consumer)
            cmdib.init_mdib()
        self.consumers.append((consumer, cmdib, server))
        return consumer, cmdib

    # ---- SCO worker under harness control (C09 / C10): no worker thread, queued operations run when told to
    def inline_sco(self):
        from sdc11073.provider import sco as sco_mod
        for reg in self.provider._sco_operations_registries.values():  # noqa: SLF001
            reg.stop_worker()
            reg._worker = sco_mod._OperationsWorker(reg, reg._set_service, reg._mdib, reg._log_prefix)  # noqa: SLF001

    def run_sco(self, idle_first: bool = False):
        """Process everything that is queued, in this thread, with the real worker loop.  idle_first: the loop first
        finds its queue empty once (one second without requests: the worker checks the invocation time-outs)."""
        import queue as queue_mod

        from sdc11073.provider import sco as sco_mod
        for reg in self.provider._sco_operations_registries.values():  # noqa: SLF001
            worker = reg._worker  # noqa: SLF001
            if worker is None or worker.is_alive():
                continue
            q = worker._operations_queue  # noqa: SLF001
            if idle_first:
                real_get = q.get

                def idle_once(*a, q=q, real_get=real_get, **kw):
                    del q.get  # (instance attribute: the next call is the real one again)
                    raise queue_mod.Empty
                q.get = idle_once
            with q.mutex:  # the end marker goes in even when the (bounded) queue is full
                q.queue.append('stop_sco')
                q.not_empty.notify()
            worker.run()
            reg._worker = sco_mod._OperationsWorker(reg, reg._set_service, reg._mdib, reg._log_prefix)  # noqa: SLF001

    def close(self, send_subscription_end: bool = False):
        if self.closed:
            return
        self.closed = True
        self.vt.shutdown_for = getattr(self.vt, 'shutdown_for', 0) + 1
        # background loops must not wait for wall-clock seconds: let every virtual sleep return immediately
        self.vt.shutdown()
        for consumer, _m, server in self.consumers:
            try:
                consumer.stop_all(unsubscribe=False)
            except Exception:  # noqa: BLE001
                pass
            if server is not None:
                server.stop()
        for reg in self.provider._sco_operations_registries.values():  # noqa: SLF001
            if reg._worker is not None and not reg._worker.is_alive():  # noqa: SLF001  (inline worker, never started)
                reg._worker = None  # noqa: SLF001
        try:
            self.provider.stop_all(send_subscription_end=send_subscription_end)
        finally:
            self.provider_server.stop()
            self.vt._shutdown = False  # noqa: SLF001  (next world starts with a blocking clock again)
