"""Virtual `time` module stand-in.

Library modules call time.time()/monotonic()/sleep() through the module object (`import time`), so assigning an
instance of VirtualTime to `<module>.time` gives the harness the clock of exactly that module.  sleep() in a background
thread of the library is a rendezvous: the thread parks until the harness calls tick(), runs one loop iteration and
parks again; tick() returns when it is parked again.  After shutdown() every sleep returns at once, so loops that test
their run-flag terminate without waiting for wall-clock time.
"""
from __future__ import annotations

import importlib
import threading
import time as _real_time


class VirtualTime:
    def __init__(self, start_epoch: float = 1_790_000_000.0):
        self._epoch0 = start_epoch
        self.now = 1000.0  # virtual monotonic seconds
        self._cond = threading.Condition()
        self._generation = 0
        self._parked = {}  # thread ident -> generation seen when parking
        self._shutdown = False
        self._main = threading.get_ident()
        self._installed = []

    # ---- clock
    def time(self):
        return self._epoch0 + self.now

    def monotonic(self):
        return self.now

    def perf_counter(self):
        return self.now

    def time_ns(self):
        return int(self.time() * 1e9)

    def advance(self, seconds: float):
        self.now += seconds

    def __getattr__(self, name):
        return getattr(_real_time, name)

    # ---- sleep rendezvous
    def sleep(self, seconds):  # noqa: ARG002
        ident = threading.get_ident()
        if ident == self._main:
            return  # the harness thread itself never blocks on virtual sleeps
        if self._shutdown:
            _real_time.sleep(0.002)  # (a loop waiting for its run-flag must not hog the interpreter lock meanwhile)
            return
        with self._cond:
            if self._shutdown:
                return
            gen = self._generation
            self._parked[ident] = gen
            self._cond.notify_all()
            while not self._shutdown and self._generation == gen:
                self._cond.wait(0.5)
            self._parked.pop(ident, None)

    def parked_threads(self) -> int:
        with self._cond:
            return len(self._parked)

    def tick(self, expected_sleepers: int | None = None, timeout: float = 10.0):
        """Let every parked thread run one iteration and wait until they are parked again."""
        with self._cond:
            n = len(self._parked) if expected_sleepers is None else expected_sleepers
            self._generation += 1
            self._cond.notify_all()
            deadline = _real_time.monotonic() + timeout
            while True:
                parked_now = [g for g in self._parked.values() if g == self._generation]
                if len(parked_now) >= n or self._shutdown:
                    return True
                left = deadline - _real_time.monotonic()
                if left <= 0:
                    return False
                self._cond.wait(min(left, 0.2))

    def wait_parked(self, n: int, timeout: float = 10.0) -> bool:
        with self._cond:
            deadline = _real_time.monotonic() + timeout
            while len(self._parked) < n:
                left = deadline - _real_time.monotonic()
                if left <= 0:
                    return False
                self._cond.wait(min(left, 0.2))
            return True

    def shutdown(self):
        with self._cond:
            self._shutdown = True
            self._cond.notify_all()

    # ---- installation
    def install(self, *module_names: str):
        for name in module_names:
            mod = importlib.import_module(name)
            if getattr(mod, 'time', None) is not None:
                self._installed.append((mod, mod.time))
                mod.time = self
        return self

    def uninstall(self):
        for mod, orig in self._installed:
            mod.time = orig if not isinstance(orig, VirtualTime) else _real_time
        self._installed.clear()


THREAD_MODULES = ('sdc11073.provider.subscriptionmgr_base', 'sdc11073.provider.subscriptionmgr_async',
                  'sdc11073.consumer.subscription')
