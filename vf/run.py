"""Dispatcher and campaign protocol shared by all property checks.

    python -m vf.run <ID> quick|thorough
    python -m vf.run <ID> --replay <file>

Protocol (see DESIGN.md 1.2): a property module exposes

    run(ctx)                      -> drives its campaigns, reporting through ctx
    replay(part, case)            -> list of (signature, detail) for one saved case

Findings are bucketed by *signature* (a root-cause key chosen by the property module).  Signatures listed as
"known" in known_findings.json are printed as KNOWN-FINDING and never make the check fail; every other
signature is a VIOLATION with a replay file.  Exit codes: 0 held, 1 violation, 2 harness error.
"""
from __future__ import annotations

import collections
import hashlib
import importlib
import json
import multiprocessing
import os
import sys
import time
import traceback

ROOT = os.path.dirname(os.path.dirname(os.path.abspath(__file__)))
REPO = os.environ.get('VERIF_REPO', '/repo')

TIER_BUDGET_S = {'quick': 150.0, 'thorough': 1500.0}
NPROC = min(16, os.cpu_count() or 1)


class HarnessError(Exception):
    """Something is wrong with the verification machinery itself (never a verdict about the repository)."""


class StopShrink(BaseException):
    """Raised inside a hypothesis test body to abandon shrinking when its time cap is hit."""


def jdump(obj) -> str:
    return json.dumps(obj, sort_keys=True, default=_json_default, ensure_ascii=True, separators=(',', ':'))


def _json_default(o):
    if isinstance(o, (bytes, bytearray)):
        return {'__bytes__': bytes(o).hex()}
    if isinstance(o, (set, frozenset)):
        return sorted(o, key=repr)
    if isinstance(o, tuple):
        return list(o)
    return repr(o)


def unjson(o):
    """Inverse of the bytes encoding used by jdump (applied recursively)."""
    if isinstance(o, dict):
        if set(o) == {'__bytes__'}:
            return bytes.fromhex(o['__bytes__'])
        return {k: unjson(v) for k, v in o.items()}
    if isinstance(o, list):
        return [unjson(v) for v in o]
    return o


def digest(obj) -> int:
    return int.from_bytes(hashlib.sha1(jdump(obj).encode()).digest()[:8], 'big')


def short(obj, limit=700):
    s = jdump(obj)
    if len(s) <= limit:
        return json.loads(s)
    return s[:limit] + '...(%d chars)' % len(s)


def exc_sig(exc: BaseException) -> str:
    """'<Type>@<module>.<function>' of the innermost frame that lies in the sdc11073 / tutorial sources."""
    tb = traceback.extract_tb(exc.__traceback__)
    where = None
    for fr in tb:
        fn = fr.filename.replace('\\', '/')
        if '/sdc11073/' in fn or '/tutorial/' in fn:
            mod = fn.split('/sdc11073/')[-1] if '/sdc11073/' in fn else 'tutorial/' + fn.split('/tutorial/')[-1]
            where = f'{mod[:-3].replace("/", ".")}.{fr.name}'
    if where is None and tb:
        fr = tb[-1]
        where = f'{os.path.basename(fr.filename)[:-3]}.{fr.name}'
    return f'{type(exc).__name__}@{where}'


def exc_in_library(exc: BaseException) -> bool:
    """True if the exception was raised by a frame of the repository (not of the harness / stdlib)."""
    tb = traceback.extract_tb(exc.__traceback__)
    if not tb:
        return False
    for fr in reversed(tb):
        fn = fr.filename.replace('\\', '/')
        if fn.endswith(('/vf/loopback.py', '/vf/memhttp.py')) and (
                type(exc).__module__.startswith('sdc11073') or isinstance(exc, OSError)):
            continue  # the transport stand-ins raise, for the library, what the real transport raises there
        if '/vf/' in fn and ROOT in fn:
            return False
        if '/sdc11073/' in fn or '/tutorial/' in fn:
            return True
    return False


class Ctx:
    def __init__(self, prop: str, tier: str, seed: int, known: dict, shard: int = 0, budget_s: float | None = None,
                 t0: float | None = None):
        self.prop = prop
        self.tier = tier
        self.seed = seed
        self.known = known  # signature -> entry (status == 'known')
        self.shard = shard
        self.t0 = t0 if t0 is not None else time.monotonic()
        self.budget_s = budget_s if budget_s is not None else float(
            os.environ.get('VERIF_BUDGET_S', TIER_BUDGET_S[tier]))
        self.evaluations = 0
        self.nontrivial = set()  # digests of distinct non-trivial cases
        self.nontrivial_bulk = 0  # distinct by construction (enumerations)
        self.counters = collections.Counter()
        self.samples = []
        self.findings = {}  # signature -> dict(signature, detail, case, part)
        self.known_hits = collections.Counter()
        self.budget_exhausted = False
        self.exhaustive_parts = []
        self.notes = []

    # -- seeds / budget -------------------------------------------------------------------------------------
    def sub_seed(self, *labels) -> int:
        h = hashlib.sha256(jdump([self.seed, self.prop, self.shard, *labels]).encode()).digest()
        return int.from_bytes(h[:8], 'big')

    def elapsed(self) -> float:
        return time.monotonic() - self.t0

    def out_of_budget(self, fraction: float = 1.0) -> bool:
        if self.elapsed() > self.budget_s * fraction:
            self.budget_exhausted = True
            return True
        return False

    # -- accounting -----------------------------------------------------------------------------------------
    def count(self, key: str, n: int = 1):
        self.counters[key] += n

    def case(self, case, nontrivial: bool, part: str = '', classes=()):
        """Account for one executed case."""
        self.evaluations += 1
        if part:
            self.counters[f'cases/{part}'] += 1
        for c in classes:
            self.counters[f'class/{part}/{c}' if part else f'class/{c}'] += 1
        if nontrivial:
            d = digest(case)
            if d not in self.nontrivial:
                self.nontrivial.add(d)
                nsamp = sum(1 for s in self.samples if s.get('part') == part)
                if nsamp < 2 and len(self.samples) < 8:
                    self.samples.append({'part': part, 'case': short(case)})

    def bulk(self, evaluations: int, nontrivial: int, part: str, sample=None):
        """Account for an enumerated block of cases that are distinct by construction."""
        self.evaluations += evaluations
        self.nontrivial_bulk += nontrivial
        self.counters[f'cases/{part}'] += evaluations
        if sample is not None and sum(1 for s in self.samples if s.get('part') == part) < 2:
            self.samples.append({'part': part, 'case': short(sample)})

    def is_known(self, signature: str) -> bool:
        return signature in self.known

    def finding(self, signature: str, detail, case, part: str):
        """Report a violation (or a hit of a known finding)."""
        if signature in self.known:
            self.known_hits[signature] += 1
            return
        old = self.findings.get(signature)
        size = len(jdump(case))
        if old is None or size < old['size']:
            self.findings[signature] = {'signature': signature, 'detail': short(detail, 2000), 'case': case,
                                        'part': part, 'size': size}
        self.counters[f'finding/{signature}'] += 1

    def note(self, text: str):
        if text not in self.notes:
            self.notes.append(text)

    # -- shards ---------------------------------------------------------------------------------------------
    def dump(self) -> dict:
        return {'evaluations': self.evaluations, 'nontrivial': self.nontrivial, 'nontrivial_bulk': self.nontrivial_bulk,
                'counters': dict(self.counters), 'samples': self.samples, 'findings': self.findings,
                'known_hits': dict(self.known_hits), 'budget_exhausted': self.budget_exhausted,
                'exhaustive_parts': self.exhaustive_parts, 'notes': self.notes}

    def merge(self, d: dict):
        self.evaluations += d['evaluations']
        self.nontrivial |= d['nontrivial']
        self.nontrivial_bulk += d['nontrivial_bulk']
        self.counters.update(d['counters'])
        for s in d['samples']:
            if sum(1 for x in self.samples if x.get('part') == s.get('part')) < 2 and len(self.samples) < 10:
                self.samples.append(s)
        for sig, f in d['findings'].items():
            old = self.findings.get(sig)
            if old is None or f['size'] < old['size']:
                self.findings[sig] = f
        self.known_hits.update(d['known_hits'])
        self.budget_exhausted |= d['budget_exhausted']
        for p in d['exhaustive_parts']:
            if p not in self.exhaustive_parts:
                self.exhaustive_parts.append(p)
        for n in d['notes']:
            self.note(n)


def _shard_entry(args):
    modname, funcname, prop, tier, seed, known, shard, budget_s, elapsed0, fargs = args
    try:
        mod = importlib.import_module(modname)
        ctx = Ctx(prop, tier, seed, known, shard=shard, budget_s=budget_s, t0=time.monotonic() - elapsed0)
        getattr(mod, funcname)(ctx, *fargs)
        return ('ok', ctx.dump())
    except BaseException as ex:  # noqa: BLE001
        return ('error', f'shard {shard} {funcname}{fargs!r}: ' + ''.join(traceback.format_exception(ex)))


def run_shards(ctx: Ctx, modname: str, funcname: str, jobs: list, nproc: int | None = None):
    """Run module-level function `funcname(child_ctx, *job)` for every job in worker processes and merge the results.

    Shard numbers (= job index) enter the seed derivation, so a run is a function of (VERIF_SEED, job list).
    """
    if not jobs:
        return
    nproc = min(nproc or NPROC, len(jobs))
    args = [(modname, funcname, ctx.prop, ctx.tier, ctx.seed, ctx.known, i + 1, ctx.budget_s, ctx.elapsed(), tuple(j))
            for i, j in enumerate(jobs)]
    if nproc <= 1 or os.environ.get('VERIF_NO_FORK'):
        results = [_shard_entry(a) for a in args]
    else:
        mp = multiprocessing.get_context('fork')
        with mp.Pool(nproc, maxtasksperchild=None) as pool:
            results = pool.map(_shard_entry, args, chunksize=1)
    for status, payload in results:
        if status == 'error':
            raise HarnessError(payload)
        ctx.merge(payload)


# -- hypothesis campaign: collect -> bucket -> shrink -> continue ------------------------------------------------

def hyp_campaign(ctx: Ctx, part: str, strategy, fn, max_examples: int, shrink_s: float | None = None,
                 max_rounds: int = 12):
    """Drive `fn(case) -> list[(signature, detail)]` over `strategy`.

    A case with a signature not seen before (and not a known finding) is handed to hypothesis as a failure so it
    is shrunk; the smallest failing case seen is recorded, the signature joins the `seen` set and generation goes
    on with the remaining example budget, so one shallow defect does not hide the ones behind it.
    `fn` must do its own ctx.case(...) accounting.
    """
    import hypothesis
    from hypothesis import HealthCheck, Phase, given, settings
    from hypothesis import seed as hseed

    if shrink_s is None:
        shrink_s = 40.0 if ctx.tier == 'quick' else 240.0
    seen = set()
    remaining = max_examples
    rnd = 0
    while remaining > 0 and rnd < max_rounds and not ctx.out_of_budget():
        state = {'n': 0, 'best': None, 't_fail': None}

        def body(case):
            if state['t_fail'] is None and ctx.out_of_budget():
                raise StopShrink
            state['n'] += 1
            try:
                found = fn(case)
            except (HarnessError, StopShrink):
                raise
            except Exception as ex:  # noqa: BLE001
                if exc_in_library(ex):
                    found = [(f'{ctx.prop}/{part}/unexpected-exception/{exc_sig(ex)}',
                              ''.join(traceback.format_exception(ex))[-1500:])]
                else:
                    raise HarnessError(f'{part}: exception in harness code for case {short(case)}:\n'
                                       + ''.join(traceback.format_exception(ex))) from ex
            new = []
            for sig, detail in found or ():
                if sig in ctx.known:
                    ctx.known_hits[sig] += 1
                elif sig not in seen:
                    new.append((sig, detail))
            if new:
                size = len(jdump(case))
                if state['best'] is None or size < state['best'][0]:
                    state['best'] = (size, case, new)
                if state['t_fail'] is None:
                    state['t_fail'] = time.monotonic()
                elif time.monotonic() - state['t_fail'] > shrink_s:
                    raise StopShrink
                raise AssertionError(new[0][0])

        test = given(strategy)(body)
        test = settings(max_examples=remaining, database=None, deadline=None, derandomize=False,
                        report_multiple_bugs=False, suppress_health_check=list(HealthCheck),
                        phases=[Phase.generate, Phase.shrink], print_blob=False,
                        verbosity=hypothesis.Verbosity.quiet)(test)
        test = hseed(ctx.sub_seed(part, rnd))(test)
        try:
            test()
        except StopShrink:
            pass
        except HarnessError:
            raise
        except AssertionError:
            pass
        except hypothesis.errors.HypothesisException as ex:
            if state['best'] is None and (ctx.budget_exhausted or ctx.out_of_budget()):
                # the budget ran out inside a case with interactive draws: hypothesis sees the early end as flaky data
                # generation.  The campaign is cut here (inconclusive for the rest), it is not an error of the harness
                ctx.count(f'{part}/cut-by-budget')
                break
            if state['best'] is None:
                raise HarnessError(f'{part}: hypothesis error {type(ex).__name__}: {ex}') from ex
            ctx.note(f'{part}: hypothesis reported {type(ex).__name__} while shrinking')
        except BaseException as ex:  # hypothesis wraps some failures (e.g. ExceptionGroup)
            if state['best'] is None and isinstance(ex, Exception) and (ctx.budget_exhausted or ctx.out_of_budget()) \
                    and 'StopShrink' in ''.join(traceback.format_exception(ex)):
                ctx.count(f'{part}/cut-by-budget')
                break
            if state['best'] is None:
                raise HarnessError(f'{part}: {type(ex).__name__}: {ex}\n' + ''.join(traceback.format_exception(ex))) from ex
        remaining -= max(state['n'], 1)
        rnd += 1
        if state['best'] is None:
            break
        _, case, new = state['best']
        for sig, detail in new:
            ctx.finding(sig, detail, case, part)
            seen.add(sig)
    return seen


# -- main ----------------------------------------------------------------------------------------------------

def load_known(prop: str) -> dict:
    path = os.path.join(ROOT, 'known_findings.json')
    if not os.path.exists(path):
        return {}
    with open(path) as f:
        data = json.load(f)
    return {e['signature']: e for e in data.get('findings', []) if e['property'] == prop and e['status'] == 'known'}


def load_module(prop: str):
    return importlib.import_module(f'vf.props.{prop.lower()}')


def out_root() -> str:
    """Evidence and replay files of runs against /repo go to /verif; runs against any other tree (VERIF_REPO, used for
    seeded changes and sweeps on scratch worktrees) write to scratch/ so that they never replace real evidence."""
    repo = os.path.realpath(os.environ.get('VERIF_REPO', '/repo'))
    if repo == os.path.realpath('/repo'):
        return ROOT
    return os.path.join(ROOT, 'scratch', os.path.basename(repo))


def write_replay(prop: str, f: dict) -> str:
    d = os.path.join(out_root(), 'replays', prop)
    os.makedirs(d, exist_ok=True)
    name = hashlib.sha1(f['signature'].encode()).hexdigest()[:12] + '.json'
    path = os.path.join(d, name)
    with open(path, 'w') as fh:
        fh.write(jdump({'property': prop, 'signature': f['signature'], 'part': f['part'], 'detail': f['detail'],
                        'case': f['case']}))
        fh.write('\n')
    return os.path.relpath(path, ROOT)


def write_evidence(ctx: Ctx, mod, wall: float, violations: int):
    meta = getattr(mod, 'META', {})
    n_nontrivial = len(ctx.nontrivial) + ctx.nontrivial_bulk
    coverage = {
        'evaluations': ctx.evaluations,
        'distinct_nontrivial': n_nontrivial,
        'rule': meta.get('rule', ''),
        'samples': ctx.samples[:10] or [{'note': 'no non-trivial case was generated'}],
        'exhaustive': bool(meta.get('exhaustive_parts')) and set(meta.get('exhaustive_parts', ())) <= set(
            ctx.exhaustive_parts) and bool(meta.get('all_exhaustive')),
        'exhaustive_parts': ctx.exhaustive_parts,
        'classes': {k: v for k, v in sorted(ctx.counters.items())},
        'budget_exhausted': ctx.budget_exhausted,
        'known_findings_hit': dict(ctx.known_hits),
        'excluded_known': sum(ctx.known_hits.values()),
        'new_signatures': sorted(ctx.findings),
        'notes': ctx.notes,
    }
    ev = {'property_id': ctx.prop, 'tier': ctx.tier, 'seed': ctx.seed, 'level': meta.get('level', 'exploration'),
          'coverage': coverage, 'assumptions': meta.get('assumptions', []), 'wall_s': round(wall, 2),
          'violations': violations}
    os.makedirs(os.path.join(out_root(), 'evidence'), exist_ok=True)
    with open(os.path.join(out_root(), 'evidence', f'{ctx.prop}.json'), 'w') as fh:
        json.dump(ev, fh, indent=1, sort_keys=True, default=_json_default)
        fh.write('\n')


def main(argv) -> int:
    if len(argv) < 2:
        print(__doc__)
        return 2
    prop = argv[0].upper()
    try:
        seed = int(os.environ.get('VERIF_SEED', '1') or '1')
    except ValueError:
        seed = int.from_bytes(hashlib.sha1(os.environ['VERIF_SEED'].encode()).digest()[:4], 'big')
    known = load_known(prop)
    t0 = time.monotonic()
    try:
        mod = load_module(prop)
    except Exception:  # noqa: BLE001
        traceback.print_exc()
        print(f'harness error: cannot import check for {prop}', file=sys.stderr)
        return 2
    if argv[1] == '--replay':
        path = argv[2]
        with open(path) as fh:
            data = unjson(json.load(fh))
        try:
            found = mod.replay(data.get('part', ''), data['case']) or []
        except Exception:  # noqa: BLE001
            traceback.print_exc()
            return 2
        bad = [(s, d) for s, d in found if s not in known]
        for s, d in found:
            print(f'  {s}: {short(d, 1500)}')
        if bad:
            print(f'VIOLATION property={prop} replay={path}')
            return 1
        print(f'replay of {path}: no violation')
        return 0
    tier = argv[1]
    if tier not in ('quick', 'thorough'):
        print('tier must be quick or thorough', file=sys.stderr)
        return 2
    ctx = Ctx(prop, tier, seed, known, t0=t0)
    rdir = os.path.join(out_root(), 'replays', prop)
    if os.path.isdir(rdir):  # replay files belong to one run
        for fn in os.listdir(rdir):
            if fn.endswith('.json'):
                os.remove(os.path.join(rdir, fn))
    try:
        mod.run(ctx)
    except HarnessError as ex:
        print(f'harness error in {prop}: {ex}', file=sys.stderr)
        return 2
    except Exception:  # noqa: BLE001
        traceback.print_exc()
        print(f'harness error in {prop}', file=sys.stderr)
        return 2
    wall = time.monotonic() - t0
    for sig, n in sorted(ctx.known_hits.items()):
        print(f'KNOWN-FINDING: property={prop} {known[sig].get("text", sig)} [{sig}] ({n} hits)')
    violations = 0
    for sig, f in sorted(ctx.findings.items()):
        path = write_replay(prop, f)
        print(f'  finding {sig}: {f["detail"] if isinstance(f["detail"], str) else jdump(f["detail"])}'[:400].replace('\n', ' '))
        print(f'VIOLATION property={prop} replay={path}')
        violations += 1
    write_evidence(ctx, mod, wall, violations)
    nn = len(ctx.nontrivial) + ctx.nontrivial_bulk
    print(f'{prop} {tier} seed={seed}: {ctx.evaluations} cases, {nn} distinct non-trivial, '
          f'{violations} violation signature(s), {sum(ctx.known_hits.values())} known-finding hits, '
          f'{wall:.1f}s{" (budget exhausted)" if ctx.budget_exhausted else ""}')
    return 1 if violations else 0


if __name__ == '__main__':
    code = main(sys.argv[1:])
    sys.stdout.flush()
    sys.stderr.flush()
    os._exit(code)  # background threads of the library (if any survived) must not keep the check alive
