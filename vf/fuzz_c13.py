"""Coverage-guided (atheris / libFuzzer) campaign for C13: raw connection bytes -> the real HTTP request handler.

Started as a child process by vf/props/c13.py:   python -m vf.fuzz_c13 <out dir> <runs> <seed> <shard>
The seed corpus consists of the valid requests recorded from a real provider / consumer session, so the fuzzer starts
behind the input validation.  The oracle lives in the target (c13.fuzz_one, the same judge as the Hypothesis parts).
Findings do not stop the campaign: each new signature is written to <out dir>/finding_<shard>_<n>.json, execution counts
to <out dir>/stats_<shard>.json (libFuzzer ends the process itself, so the counts are flushed while running).
"""
from __future__ import annotations

import json
import os
import sys


def main():
    out_dir, runs, seed, shard = sys.argv[1], int(sys.argv[2]), int(sys.argv[3]), int(sys.argv[4])
    import atheris
    with atheris.instrument_imports(include=['sdc11073.httpserver', 'sdc11073.dispatch', 'sdc11073.pysoap.msgreader',
                                             'sdc11073.provider.dpwshostedservice']):
        import sdc11073.dispatch.messageconverter  # noqa: F401
        import sdc11073.httpserver.httpreader  # noqa: F401
        import sdc11073.httpserver.httprequesthandler  # noqa: F401
        import sdc11073.pysoap.msgreader  # noqa: F401
        import sdc11073.provider.dpwshostedservice  # noqa: F401
    from vf import run as R
    from vf import world as W
    from vf.props import c13
    W.quiet_logging()
    s = c13.session()
    corpus_dir = os.path.join(out_dir, f'corpus_{shard}')
    os.makedirs(corpus_dir, exist_ok=True)
    for i, data in enumerate(c13.fuzz_seed_inputs(s)):
        with open(os.path.join(corpus_dir, f'seed_{i}'), 'wb') as f:
            f.write(data)
    seen = set()
    stats = {'execs': 0, 'reached_reader': 0}

    def flush():
        with open(os.path.join(out_dir, f'stats_{shard}.json'), 'w') as f:
            json.dump(stats, f)

    def one_input(data: bytes):
        if len(data) < 3:  # noqa: PLR2004
            return
        stats['execs'] += 1
        out, reached = c13.fuzz_one(s, data)
        stats['reached_reader'] += int(reached)
        if stats['execs'] % 100 == 0:
            flush()
        for sig, detail in out:
            if sig not in seen:
                seen.add(sig)
                with open(os.path.join(out_dir, f'finding_{shard}_{len(seen)}.json'), 'w') as f:
                    json.dump({'signature': sig, 'detail': R.short(detail, 600), 'input_hex': data.hex()}, f)

    flush()
    argv = [sys.argv[0], corpus_dir, f'-runs={runs}', f'-seed={seed}', '-max_len=8000', '-print_final_stats=0', '-verbosity=0',
            '-timeout=30']
    atheris.Setup(argv, one_input)
    atheris.Fuzz()


if __name__ == '__main__':
    main()
