"""In-memory HTTP (L2): the real DispatchingRequestHandler and the real SoapClient / http.client over fake sockets."""
from __future__ import annotations

import http.client
import io
import logging

from sdc11073.dispatch.pathelementregistry import PathElementRegistry
from sdc11073.httpserver.httprequesthandler import DispatchingRequestHandler
from sdc11073.pysoap.soapclient import SoapClient


class SpinDetected(BaseException):  # noqa: N818  (not an Exception: a catch-all in the library must not hide it)
    """The handler kept reading from a stream that is at EOF (stand-in for 'spins forever')."""


class EofCountingReader(io.BytesIO):
    """Request stream of a peer that has closed its side: reads at EOF return b''; too many of them = spin."""

    LIMIT = 64

    def __init__(self, data: bytes):
        super().__init__(data)
        self.empty_reads = 0
        self.total_reads = 0

    def _note(self, result):
        self.total_reads += 1
        if not result:
            self.empty_reads += 1
            if self.empty_reads > self.LIMIT:
                raise SpinDetected(f'{self.empty_reads} reads at end of stream')
        return result

    def read(self, n=-1):
        return self._note(super().read(n))

    def readline(self, n=-1):
        return self._note(super().readline(n))

    def read1(self, n=-1):
        return self._note(super().read1(n))

    def readinto(self, b):
        data = self.read(len(b))
        b[:len(data)] = data
        return len(data)


class FakeServerSocket:
    def __init__(self, request_bytes: bytes):
        self.reader = EofCountingReader(request_bytes)
        self.sent = bytearray()

    def makefile(self, mode='rb', bufsize=-1):  # noqa: ARG002
        if 'r' in mode:
            return self.reader
        return _Writer(self.sent)

    def sendall(self, data):
        self.sent += bytes(data)

    def send(self, data):
        self.sent += bytes(data)
        return len(data)

    def getpeername(self):
        return ('127.0.0.1', 50001)

    def getsockname(self):
        return ('127.0.0.1', 8080)

    def settimeout(self, t):
        pass

    def setsockopt(self, *a):
        pass

    def shutdown(self, *a):
        pass

    def close(self):
        pass


class _Writer(io.RawIOBase):
    def __init__(self, buf):
        self._buf = buf

    def writable(self):
        return True

    def write(self, b):
        self._buf += bytes(b)
        return len(b)


class _Log:
    def __init__(self):
        self.records = []

    def _rec(self, *a, **k):
        self.records.append(a)

    error = warning = info = debug = exception = warn = _rec


class MemServer:
    """What DispatchingRequestHandler needs of its server."""

    def __init__(self, chunk_size: int = 0, supported_encodings=None):
        from sdc11073.httpserver.compression import CompressionHandler
        self.dispatcher = PathElementRegistry()
        self.chunk_size = chunk_size
        self.supported_encodings = list(CompressionHandler.available_encodings) if supported_encodings is None \
            else list(supported_encodings)
        self.logger = _Log()
        self.server_port = 8080


class QuietHandler(DispatchingRequestHandler):
    def log_message(self, format, *args):  # noqa: A002
        pass

    def log_error(self, format, *args):  # noqa: A002
        self.server.logger.records.append(('log_error', format % args))


def handle_raw(server: MemServer, request_bytes: bytes):
    """Run the real request handler on raw bytes. Returns (response bytes, exception or None, reader)."""
    sock = FakeServerSocket(request_bytes)
    exc = None
    try:
        QuietHandler(sock, ('127.0.0.1', 50001), server)
    except BaseException as ex:  # noqa: BLE001
        if isinstance(ex, (KeyboardInterrupt, SystemExit)):
            raise
        exc = ex
    return bytes(sock.sent), exc, sock.reader


class _ClientSock:
    """Socket of http.client: collects the request; the response is produced by running the handler on it."""

    def __init__(self, server: MemServer, tap):
        self._server = server
        self._out = bytearray()
        self._tap = tap

    def sendall(self, data):
        if hasattr(data, 'read'):
            data = data.read()
        self._out += bytes(data)

    def makefile(self, mode='rb', bufsize=-1):  # noqa: ARG002
        request = bytes(self._out)
        self._out = bytearray()
        response, exc, _ = handle_raw(self._server, request)
        self._tap.append({'request': request, 'response': response, 'handler_exception': exc})
        return io.BytesIO(response)

    def getsockname(self):
        return ('127.0.0.1', 50001)

    def settimeout(self, t):
        pass

    def setsockopt(self, *a):
        pass

    def close(self):
        pass


class MemHTTPConnection(http.client.HTTPConnection):
    def __init__(self, server: MemServer, tap):
        super().__init__('127.0.0.1', 8080)
        self._mem_server = server
        self._tap = tap

    def connect(self):
        self.sock = _ClientSock(self._mem_server, self._tap)


class MemSoapClient(SoapClient):
    """The real SoapClient whose HTTP connection ends in a MemServer."""

    def __init__(self, server: MemServer, msg_reader, supported_encodings=None, request_encodings=None, chunk_size=0):
        super().__init__('127.0.0.1:8080', 5, logging.getLogger('vf.memhttp'), None, None, msg_reader,
                         supported_encodings=supported_encodings, request_encodings=request_encodings,
                         chunk_size=chunk_size)
        self.mem_server = server
        self.tap = []

    def _mk_http_connection(self):
        return MemHTTPConnection(self.mem_server, self.tap)
