#!/usr/bin/env python3
"""Writes /verif/MANIFEST.json from the table below (kept here so the manifest is always regenerated as a whole)."""
import json
import os

ROOT = os.path.dirname(os.path.dirname(os.path.abspath(__file__)))

CHECKS = {
    # id: (technique, level text, level note, design ref)
    'C18': ('exhaustive enumeration of dense windows + hypothesis generated values against exact Fraction/Decimal '
            'reference conversions (round-trip oracle)',
            'Every millisecond timestamp in dense windows (first 2e6 ms, 2e6 ms around 2026, +-2000 around every '
            'float-grid boundary 2**k) is enumerated completely, 1-4 digit decimal coefficients x all exponents are '
            'enumerated completely, the rest of the value spaces (18 digit decimals, durations, date/times, lexical '
            'forms outside the types) is sampled with hypothesis; each value is judged by an exact rational reference, '
            'so a conversion defect on any explored value is reported with that value as replay.',
            'Converters are called directly (to_py/to_xml, parse_duration/duration_string, parse_date_time/__str__); '
            'whitespace handling and values beyond 18 digits are outside the explored region.',
            'DESIGN.md section 2 C18'),
    'C05': ('hypothesis generation of instances of every concrete data-type/container class (reflection over the '
            'property descriptors + facets from the bundled XSD) with a write-parse-compare round-trip oracle and an '
            'independent schema validation in a typed context',
            'About 230 classes x generated member combinations; every instance is written, re-parsed, compared by an own '
            'canonical form, written again, and validated against the bundled schemas through a wrapper schema '
            '(xsi:type / global element); violations are bucketed per class and member and shrunk.',
            'The generator keeps values inside the schema value space using required-ness and simple-type facets read from '
            'the XSD files; tab/newline characters and classes listed in c05.EXCLUDED are not generated.',
            'DESIGN.md section 2 C05'),
    'C12': ('hypothesis generated traces (construct / parse with defaulted parts absent / deepcopy / nested writes / '
            'list appends) per class with an identity-walk and canonical-value oracle',
            'For every concrete class, generated operation traces are executed and after every step the value of a '
            'fresh cls() is compared with its value at the start, all mutable objects reachable from independently '
            'obtained instances and from class-level defaults are checked for identity sharing, and every write is '
            'checked not to change any other instance.',
            'Class-level default objects are restored from pristine copies before each case; mk_copy() relatives are '
            'not treated as independent (C03 covers copy isolation).',
            'DESIGN.md section 2 C12'),
    'C02': ('hypothesis generated MDIB programs (operation histories as data) interpreted against a ProviderMdib, with '
            'a before/after snapshot oracle and harness-kept per-handle version high-water marks',
            'Generated histories over all transaction kinds and both transaction interfaces, including several related '
            'operations inside one descriptor transaction and delete/re-create cycles; after every operation the full '
            'canonical snapshot is compared with the previous one: MdibVersion step, per-object version monotonicity, '
            'version increase on content change, re-creation above the last version, referential invariants by scan, '
            'and no change outside the declared footprint of the operation.',
            'ProviderMdib is driven directly (no transport, no role providers); values come from the C05 generators.',
            'DESIGN.md section 2 C02'),
    'C03': ('hypothesis generated histories with injected faults (exception at the k-th point of a transaction body, '
            'rejected API calls, self-failing commits) and generated nested in-place writes on handed-out objects; '
            'before/after full-snapshot oracle',
            'Every history step is judged against the complete canonical snapshot of the MDIB (content, versions, lookup '
            'audit, table sizes) and against the transaction/rt_updates observables: aborts, rejections and failing commits '
            'must leave everything unchanged and fire nothing; objects published by earlier commits must keep their value '
            'for the rest of the history; nested writes on transaction copies, entity-getter results and published copies '
            'must not reach the MDIB without a commit.',
            'ProviderMdib driven directly; crash points are the library API calls made by the body (before the first, '
            'after each, after the last); lxml extension elements are shared by design and not written to.',
            'DESIGN.md section 2 C03'),
    'C01': ('hypothesis generated MDIB programs executed on a provider with an in-process consumer (loop-back '
            'transport); whole-MDIB canonical comparison after every prefix and a before/after diff oracle for the '
            'consumer observables',
            'Provider and consumer run the real stack (transactions, report generation, serialisation with schema '
            'validation, dispatching, message reader, ConsumerMdib) with only the socket replaced; after every operation '
            'of a generated history both MDIBs are compared as wholes (descriptors with parents, states, context states, all '
            'version counters, MdibVersion/SequenceId/InstanceId) and the entities named by the consumer observables are '
            'compared with the entities whose canonical form changed.',
            'Notifications are handled synchronously in the committing thread; sync and async subscription managers; '
            'the tutorial role providers are attached, their periodic worker is parked.',
            'DESIGN.md section 2 C01'),
    'C11': ('hypothesis generated operation lists on MultiKeyLookup against a reference set + recomputed grouping, and '
            'lookup audits after every step of generated MDIB programs on provider, consumer and subscription tables',
            'Index dictionaries are compared with a linear scan after every generated operation; rejected inserts are '
            'compared with a deep snapshot taken before the call; the real MDIB tables on both sides are audited after every '
            'operation of generated histories that are biased to change indexed attributes.',
            'The scan uses the index key functions of the table itself; unique-key collisions on update are not generated.',
            'DESIGN.md section 2 C11'),
    'C15': ('complete enumeration of both random draws for both parameter sets (module random/time replaced by '
            'enumerating stand-ins) with an arithmetic envelope oracle; real send loop on a virtual clock; loop-back '
            'suppression through the real read-queue loop',
            'All 201 402 (parameter set, initial delay, first gap) outcomes are enumerated and the queued send times '
            'are checked against the envelope; a sample is also run through the real _run_send loop with a fake selector '
            'and socket on a virtual clock; own message ids are fed back through _run_q_read.',
            'The enumeration ranges are read from the parameter objects; randomness and time are taken from the module '
            'level random / time objects.',
            'DESIGN.md section 2 C15'),
    'C16': ('hypothesis generated locations and foreign scope strings; round-trip oracle, containment laws against '
            'generalised / differing locations on the scope a ProviderMdib publishes, totality and differential '
            'filtering oracle',
            'Locations over all present/absent element combinations with reserved and non-ASCII characters are '
            'round-tripped through scope strings; the scope published by mk_scopes after set_location is tested against '
            'every generalisation and against locations differing in one element; filter_services_inside is run on '
            'services with arbitrary foreign scopes and must neither raise nor miss/invent matches.',
            'Empty strings are not used as element values (documented as absent).',
            'DESIGN.md section 2 C16'),
    'C17': ('hypothesis generated bodies / chunk sizes / coding sets / Accept-Encoding headers driven through the real '
            'SoapClient and the real request handler over in-memory sockets; round-trip, independent chunk parser and '
            'negotiation oracles',
            'Request and response paths run end to end in memory (client encode+chunk, handler dechunk+decode, handler '
            'encode+chunk, client decode); the bytes on the wire are parsed with an independent RFC 7230 chunk parser; '
            'the coding on the wire must be one the peer accepted with q>0 and that is enabled locally; corrupt or '
            'unsupported codings must not reach the component as different bytes.',
            'Malformed q values count as unspecified; undetectable corruption of lz4 frames (no checksum) is not generated.',
            'DESIGN.md section 2 C17'),
    'C14': ('hypothesis generated scope pairs / type lists / services judged by an independent reference matcher and '
            'algebraic laws; generated datagram histories fed through the real read-queue loop into WSDiscovery and '
            'judged by a reference model of the remote table and of the recent-id memory',
            'match_scope / filter_services are compared with a matcher written from the statement (own RFC 3986 split, own '
            'percent decoder, segment-wise prefix) over URIs that differ by case, encoding or one segment; histories of '
            'Hello / ProbeMatches / ResolveMatches / Bye / Probe / Resolve datagrams (library factory, serialised, parsed '
            'again) check probe and resolve answers, the per-EPR highest-version record and at-most-once dispatch of '
            'remembered message ids, including more than 200 distinct ids.',
            'NetworkingThread is instantiated without sockets; query/fragment parts are not generated; ldap/uuid rules '
            'are only checked for totality.',
            'DESIGN.md section 2 C14'),
    'C20': ('hypothesis generated MDIB states + handle lists / text stores + filter parameters, queried through the real '
            'consumer service clients over the loop-back transport and compared with a reference selection',
            'GetMdState / GetContextStates answers (parsed by the consumer clients) are compared as keyed multisets and by '
            'canonical content with a reference selection written from the BICEPS rules and evaluated on the provider '
            'tables; GetLocalizedText answers must come from the store and satisfy every given constraint, the '
            'unconstrained answer must be exactly the latest version; GetSupportedLanguages must equal the stored languages.',
            'Single provider with context states enabled in GetMdState (library default); handle strings are schema-valid.',
            'DESIGN.md section 2 C20'),
    'C04': ('hypothesis generated MDIB programs with a per-version snapshot oracle over every notification on the wire and '
            'an independent lxml schema validation of every message; cooperative scheduler (random schedules and '
            'exhaustive depth-first enumeration for small scenarios) for the delivery order under concurrent writers',
            'reports part: programs over all transaction kinds on a 2-MDS and a 1-MDS MDIB, sync and async manager. Every '
            'committed MdibVersion is snapshotted while the committing thread holds mdib_lock. Each episodic / waveform / '
            'description-modification notification sent to a subscriber is parsed back: its version group must be the '
            'committed one, the union of entities over the reports of a version must be exactly the entities whose '
            'canonical form changed at that version, each with the content and counters of that version, under the '
            'SourceMds it belongs to. Every SOAP message of the run (start-up, subscribe, notifications, responses) is '
            'validated with an lxml XMLSchema over the bundled XSD files. Periodic store: every retained copy equals the '
            'snapshot of the version it is labelled with after every later operation; one real iteration of the periodic '
            'send loop must send exactly the stored states. order part: 2-3 writer threads under the cooperative scheduler '
            '(yield points at mdib_lock, transaction lock, subscription table locks): per subscriber the MdibVersions of '
            'the ordered report kinds are non-decreasing.',
            'Interleavings at lock granularity only; the subscriber handles notifications in the delivering thread; the '
            'periodic timer is replaced so that exactly one loop iteration runs.',
            'DESIGN.md section 2 C04'),
    'C06': ('hypothesis generated provider MDIB programs x delivery schedules (drop / duplicate / reorder / late replay / '
            'reload) x in-flight commits around the GetMdib answer x SequenceId / InstanceId change, on a fault-injecting '
            'in-process loop-back transport, with monotonicity, no-change, membership and mirror oracles',
            'The notifications of a generated provider history are withheld by the transport and delivered to the real '
            'consumer according to the generated schedule. After every delivery: MdibVersion and every StateVersion are '
            'non-decreasing, a stale / duplicated / foreign-id report leaves the canonical consumer MDIB unchanged, every '
            'lookup index equals a scan, and every state the consumer holds equals a version the provider published for '
            'that handle. After every reload (and after the initial load with 0-3 commits before / after the provider '
            'computes the GetMdib answer) the consumer must be a canonical mirror; after an id change nothing may be '
            'applied until reload_all, and fresh reports after the reload must keep the mirror.',
            'Notifications are handled synchronously in the delivering thread; a provider restart is modelled by changing '
            'sequence_id / instance_id of the provider MDIB.',
            'DESIGN.md section 2 C06'),
    'C07': ('cooperative scheduler owning the interleaving of real reader / writer threads at lock acquire / release '
            'granularity: hypothesis generated scenarios x schedules, plus exhaustive depth-first enumeration of all '
            'schedules of small scenarios, with a per-version snapshot history as the oracle',
            'Reader tasks send GetMdib / GetMdDescription / GetMdState / GetContextStates through the real consumer '
            'clients and the loop-back transport into the real provider handlers while writer tasks commit generated '
            'transactions (states, context states, descriptor create / update / delete). ProviderMdib.mdib_lock, the '
            'transaction lock and (fine mode) the three table locks are replaced by scheduler locks, so a schedule is a '
            'choice list. Every committed MdibVersion is snapshotted (canonical descriptors, states, context states) while '
            'the committing task still holds the lock. A response stating MdibVersion V must state a version that was '
            'current during the request, carry the version group of V, contain exactly the entities a reference selection '
            '(written from the BICEPS rules) picks from snapshot V, each with the content and counters of snapshot V. '
            'Small scenarios (1 reader x 1 request x 1-2 writers x 1-2 transactions) are enumerated exhaustively.',
            'Interleavings are explored at the granularity of the instrumented locks; between two yield points a task '
            'runs alone. Nothing is claimed for preemption inside a critical section.',
            'DESIGN.md section 2 C07'),
    'C19': ('hypothesis generated configurations x exchange histories on the loop-back transport with TLS handshake '
            'emulation, observing every client construction, connect, URL and server context; plus exhaustive enumeration '
            'of mk_ssl_contexts parameter combinations with real in-memory TLS handshakes against signed / untrusted / '
            'certificate-less peers',
            'world part: provider TLS off/on x consumer none/optional/enforced x shared/own HTTP servers x alternative '
            'host names x sync/async manager, then a generated history (notifications, operation invocation, Renew, '
            'GetStatus, Get, Unsubscribe, shutdown with SubscriptionEnd). For every TLS-configured party (provider with a '
            'context container; consumer with force_ssl_connect): every SOAP client it constructs gets exactly its client '
            'context, it never opens or uses a plaintext connection, every URL with its own port in any message on the '
            'wire or in the published discovery data is https, an HTTP server it creates gets its server context; an '
            'incompatible peer must be refused (no fall-back). contexts part: all 48 parameter combinations; with a CA '
            'file both contexts have CERT_REQUIRED, have the CA loaded, complete a handshake with a CA-signed peer and '
            'refuse untrusted and certificate-less peers, in both directions.',
            'The TLS handshake outcome of the world part is emulated at connect time (TLS client to plaintext port: '
            'ssl.SSLError, plaintext client to TLS port: connection reset). WS-Discovery itself is not part of the world '
            '(the consumer is given the provider address).',
            'DESIGN.md section 2 C19'),
    'C10': ('hypothesis generated histories of set_location and SetContextState invocations executed end to end '
            '(consumer client, loop-back transport, SetService, SCO worker loop run inline, tutorial context provider) '
            'with an invariant oracle over the provider table and the context reports',
            'After every step the provider context-state table is scanned: at most one associated state per descriptor, '
            'unique state handles, binding / unbinding version and time set on every association change and equal to the '
            'MdibVersion of the commit that made the change visible (the harness keeps the previous association per state); '
            'invalid proposals must report Fail and leave the MDIB unchanged; states carried by EpisodicContextReports '
            'must agree with the table.',
            'Proposals that would move an associated state to No/Pre are sent as Dis (BICEPS life cycle); the fixture '
            'offers a SetContextState operation for the patient context only, locations change through set_location.',
            'DESIGN.md section 2 C10'),
    'C09': ('hypothesis generated invocation histories end to end (consumer clients, loop-back transport, SetService, SCO '
            'registry with the worker loop run inline, handlers replaced by generated behaviours) judged against the '
            'invocation-state grammar; complete enumeration of response/report interleavings for the consumer '
            'OperationsManager',
            'Provider side: transaction ids, the report state sequence per transaction (Wait Start F | F), the response '
            'state and error information are read from the wire and compared with the behaviour the history prescribed, '
            'including unknown operations; consumer side: the returned Future must be done, completed exactly once and carry '
            'the final state and all parts delivered up to the final one - for every interleaving of the response with the '
            'report parts of 1-2 concurrent transactions (enumerated; sampled for 3) and with duplicated final parts.',
            'The SCO worker is not a thread (queued requests are processed when the history says drain); at most 10 queued '
            'requests between drains.',
            'DESIGN.md section 2 C09'),
    'C08': ('hypothesis generated eventing histories (real SOAP requests over the loop-back transport, virtual clock, '
            'stepped housekeeping, injected delivery faults) judged by a reference model of subscription liveness',
            'For every report a provider transaction emits (observed on the manager and on the wire) the set of subscribers '
            'that were sent the notification must equal the set the model holds live and matching: accepted, not expired '
            '(virtual monotonic clock), not unsubscribed, below the delivery-failure limit, action in filter. Granted and '
            'reported expiry values are compared with the model, unknown identifiers must fault and leave the scanned '
            'subscription table unchanged, and on shutdown every live subscription must get exactly one SubscriptionEnd at '
            'EndTo or else NotifyTo. Four manager variants (sync/async x path/reference-parameter dispatch).',
            'subscriptionmgr_base.time is a virtual clock; housekeeping threads run one iteration per tick; delivery '
            'faults are HTTP status, refused connection and timeout injected at the loop-back transport.',
            'DESIGN.md section 2 C08'),
    'C13': ('hypothesis generated HTTP framing and structure-aware mutations of recorded valid SOAP requests, plus '
            'coverage-guided byte fuzzing (atheris / libFuzzer, seeded with the recorded requests), both driven in-process '
            'through the real DispatchingRequestHandler (fake socket) into a live provider and live consumers; '
            'totality / response-shape / canary / unchanged-state oracles',
            'Requests are judged by: nothing escapes handle(), no spinning at end of stream, an HTTP status line for every '
            'well-formed request line, a well-formed SOAP fault for faults, a canary file / internal entity token that must '
            'appear neither in the response nor in the parsed tree handed on by the message reader, and an unchanged MDIB '
            'and subscription table after every rejected request. A valid request that follows a well-framed POST on the '
            'same connection must be answered properly (the body is never taken for a request); the worker thread of a '
            'consumer with the deferred dispatcher must survive every request and still process a valid notification. '
            'The atheris campaigns (thorough: 6 x 60000 runs; quick: 800 runs) use the same judge inside the target.',
            'The peer is modelled as closing after sending; kernel sockets, timeouts and TLS are not in the loop. libFuzzer '
            'campaigns are pinned by -seed / -runs only approximately; every finding is saved as a replayable input.',
            'DESIGN.md section 2 C13'),
}

# (technique suffix, level text suffix) added in session 3 - see DESIGN.md section 6.1
EXTRA = {
    'C01': ('; one case in three uses the consumer\'s default deferred dispatcher (drained through an end marker)',
            ' Programs include several states per state transaction, stale context entities, context descriptors that are '
            'deleted and re-created with their states; deleted_states_by_handle is one of the notifications judged.'),
    'C02': ('', ' Programs include stale context entities written after their descriptor changed, context descriptors '
                'deleted / re-created with 2-3 context states, several states per state transaction.'),
    'C03': ('; further generated steps: entity.update() followed by nested writes, writes to getter results after their '
            'transaction committed, rejected calls caught inside the transaction body',
            ' Rejected mk_context_state calls with a handle in use and a context state removed through a descriptor transaction are part of the histories. A handed-out object is also written to after entity.update() and after the commit of the transaction that '
            'handed it out; a rejected call that the application catches inside the body must contribute nothing.'),
    'C05': ('; separate generated part for mex Metadata (hand-written reader) validated as wsx:Metadata',
            ' mex Metadata values with generated ThisModel / ThisDevice / Relationship / wsdl sections are written, '
            'validated, read back and compared, including the shortcut members.'),
    'C06': ('; reports of in-flight commits can be lost during the initial load; replayed buffered reports are judged '
            'against the Get responses of the same load',
            ' During the initial load some reports may be lost (then: nothing older than the Get responses, reload '
            'restores the mirror) and every state announced while buffered reports are replayed is compared with what '
            'GetMdib / GetContextStates delivered.'),
    'C07': ('; reads of mdib_version_group are switch points as well, table locks always instrumented',
            ' The version-group read is a switch point, so a reader that keeps writers out with the wrong lock or none is '
            'interleaved between collecting and labelling its answer.'),
    'C09': ('', ' The report sequence of every transaction id seen in reports is judged, also ids no response carried '
                '(refused requests).'),
    'C10': ('; plus concurrent context changes (2-3 tasks) under the cooperative scheduler judged on per-MdibVersion '
            'snapshots',
            ' Part sched: SetContextState invocations by different consumers and set_location run concurrently, '
            'interleaved at lock granularity; the same invariants are judged on a snapshot per MdibVersion.'),
    'C14': ('', ' Histories can install application callbacks (well-behaved or raising) for hello / bye / probe / probe '
                'matches / resolve match.'),
    'C15': ('; hypothesis generated sets of 2-4 messages in flight on the stepping clock; enumerated loop-back with '
            '0..450 foreign ids seen before',
            ' Several messages in flight: each keeps its own envelope in the real send loop; own messages are ignored when '
            'looped back also after the 200-id memory has been filled and a new foreign message arrived in between.'),
    'C16': ('', ' The published scope is also judged after a location history (earlier locations, final one set with '
                'set_location or in place with update_from_sdc_location).'),
    'C18': ('; exhaustive differential of every scalar-valued property against its converter',
            ' Each of the 91 attribute / element-text properties with a scalar or list-of-scalars converter must read the '
            'fixed inside / outside lexical forms exactly as its converter does.'),
    'C19': ('; the transport can re-spell peer input (wsdl location on another server, wsa:To with http) and real socket '
            'connects are intercepted',
            ' A real socket connect in a world with a TLS party is a connection outside the soap clients and their TLS '
            'context; addresses the provider derives from peer input must still be https.'),
}

EXTRA_R5 = {'C04': ('; plus a real-time probe of a subscriber that is slow to answer (asynchronous manager)', ' The application writes to every transaction result before the periodic store is judged; a subscriber that takes 6.5 s to answer must not be overtaken by the next commit.'), 'C08': ('', ' A subscriber can unsubscribe while another one is being served by the same report (synchronous managers).'), 'C11': ('; the entity getters are audited as look-ups, stored objects are handed to the MDIB tables once more', ' entities.items / by_handle / by_parent_handle / by_node_type are compared with a scan after structural operations; keys may repeat in 1:n indices.'), 'C13': ('; a 500 without SOAP fault after a POST is a finding', ' After a POST the last-resort answer of the HTTP handler (500, no SOAP fault) counts as neither proper response nor fault; unknown service elements below the device prefix are generated.'), 'C17': ('; generated sequences of set_used_compression calls on a running provider', ' Part reconfigure: after every set_used_compression call a request accepting every coding is answered through the real handler with the object the provider handed to its server.'), 'C20': ('', ' Versions include 0.')}
for _k, (_t, _l) in EXTRA_R5.items():
    _a, _b = EXTRA.get(_k, ('', ''))
    EXTRA[_k] = (_a + _t, _b + _l)

NOT_YET = {}


def main():
    props = [json.loads(line) for line in open(os.path.join(ROOT, 'properties.jsonl'))]
    checks = []
    not_applicable = []
    for p in props:
        pid = p['id']
        if pid in CHECKS:
            tech, text, note, ref = CHECKS[pid]
            tech += EXTRA.get(pid, ('', ''))[0]
            text += EXTRA.get(pid, ('', ''))[1]
            checks.append({
                'property_id': pid,
                'quick_cmd': f'./check {pid} quick',
                'thorough_cmd': f'./check {pid} thorough',
                'evidence_file': f'evidence/{pid}.json',
                'replay_cmd_template': f'./check {pid} --replay {{path}}',
                'engine': 'vf',
                'level_claimed': {'category': 'exploration', 'text': text, 'design_ref': ref},
                'level_note': note,
                'technique': tech,
            })
        else:
            not_applicable.append({'property_id': pid, 'reason': NOT_YET.get(
                pid, 'check not built yet in this commit (planned, see DESIGN.md section 2); not claimed until it is')})
    manifest = {
        'version': 1,
        'setup_cmd': './setup.sh',
        'hooks': {
            'guard': 'SDC11073_VERIF',
            'enable': 'no source hooks exist: all instrumentation is injected from /verif at run time '
                      '(collaborator classes, instance attributes, module-level time/random stand-ins)',
            'baseline_off_cmd': 'cd /repo && env -u SDC11073_VERIF /venv/bin/python -m pytest -ra -q -p no:cacheprovider '
                                '--timeout=900 --continue-on-collection-errors',
            'source_commits': [],
            'add_only': True,
        },
        'engines': [{'name': 'vf', 'path': 'vf/run.py', 'serves_properties': sorted(CHECKS),
                     'kind_free_text': 'property-based testing: hypothesis generators + exhaustive enumeration of '
                                       'small finite domains, explicit oracles, collect-bucket-shrink-continue loop'}],
        'checks': checks,
        'not_applicable': not_applicable,
        'notes': 'All checks run /venv/bin/python with /repo/src and /repo first on sys.path, so they always exercise '
                 'the current working tree. known_findings.json lists repaired (fixed) and recorded (known) defects.',
    }
    with open(os.path.join(ROOT, 'MANIFEST.json'), 'w') as f:
        json.dump(manifest, f, indent=1)
        f.write('\n')
    try:
        import jsonschema
        jsonschema.validate(manifest, json.load(open('/root/.vp/MANIFEST.schema.json')))
        print('manifest valid;', len(checks), 'checks,', len(not_applicable), 'not claimed')
    except ImportError:
        print('manifest written (jsonschema not available for validation)')


if __name__ == '__main__':
    main()
