#!/bin/bash
# usage: tools/try_seeded.sh <seeded dir> <check id> [more check ids]
# Applies <dir>/patch.diff to /repo, runs the demo and the given checks (quick), restores /repo.
D="$1"; shift
cd /repo || exit 2
if ! git diff --quiet; then echo "repo not clean"; exit 2; fi
if ! git apply --check "$D/patch.diff" 2>/dev/null; then echo "PATCH DOES NOT APPLY: $D"; exit 3; fi
echo "== demo on clean tree:"; /venv/bin/python "$D/demo.py" /repo >/dev/null 2>&1; echo "   exit $?"
git apply "$D/patch.diff"
echo "== demo with patch:"; /venv/bin/python "$D/demo.py" /repo 2>&1 | tail -2 | cut -c1-200; echo "   exit ${PIPESTATUS[0]}"
cd /verif
for c in "$@"; do
  out=$(VERIF_SEED=${VERIF_SEED:-1} ./check "$c" quick 2>&1)
  echo "== $c: exit $? :: $(echo "$out" | grep -c '^VIOLATION') violation line(s)"
  echo "$out" | grep "finding" | head -3 | cut -c1-260
done
git -C /repo checkout -- .
