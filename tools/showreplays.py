import json,sys,glob,re
pat=sys.argv[2] if len(sys.argv)>2 else ''
n=int(sys.argv[3]) if len(sys.argv)>3 else 300
for f in sorted(glob.glob(f'replays/{sys.argv[1]}/*.json')):
    d=json.load(open(f))
    if re.search(pat, d['signature']):
        det=d['detail']
        if isinstance(det,str):
            try: det=json.loads(det)
            except Exception: pass
        if isinstance(det,dict) and 'errors' in det: det=det['errors'][:2]
        s=json.dumps(det)
        s=re.sub(r'\{http[^}]*/([a-z0-9-]+)\}',r'{\1}',s)
        print('==',d['signature']); print('   ',s[:n]); print('    case:',json.dumps(d['case'])[:n])
