#!/bin/bash
# tools/recheck_seeded.sh [ids...]: re-run every kept seeded change against the checks named in its meta.json (caught_by)
# on a scratch worktree of /repo's HEAD; prints one line per (seeded change, check).
cd /verif || exit 2
ids=("$@"); [ ${#ids[@]} -eq 0 ] && ids=($(ls seeded))
for id in "${ids[@]}"; do
  d=/verif/seeded/$id
  checks=$(python3 -c "import json;print(' '.join(json.load(open('$d/meta.json')).get('caught_by') or []))")
  [ -z "$checks" ] && { echo "$id: no check named"; continue; }
  out=$(tools/try_seeded_wt.sh "$d" $checks 2>&1)
  if echo "$out" | grep -q "PATCH DOES NOT APPLY"; then echo "$id: PATCH DOES NOT APPLY"; continue; fi
  demo=$(echo "$out" | grep -A1 "demo with patch" | grep -c "exit 1")
  echo "$out" | grep "^== C" | while read -r line; do echo "$id: $line"; done
done
