#!/bin/bash
# tools/sweep.sh <seed> [ids...]: run the quick tier of every check (or the given ones) at VERIF_SEED=<seed> against a clean
# scratch worktree of /repo's HEAD; one summary line per check. Evidence files are restored afterwards (git checkout).
seed="$1"; shift
ids=("$@"); [ ${#ids[@]} -eq 0 ] && ids=(C01 C02 C03 C04 C05 C06 C07 C08 C09 C10 C11 C12 C13 C14 C15 C16 C17 C18 C19 C20)
WT=$(mktemp -d /tmp/wt_sweep_XXXXXX); rmdir "$WT"
git -C /repo worktree add -q --detach "$WT" HEAD || exit 2
trap 'git -C /repo worktree remove --force "$WT" >/dev/null 2>&1' EXIT
cd /verif
for id in "${ids[@]}"; do
  out=$(VERIF_REPO="$WT" VERIF_SEED=$seed ./check "$id" quick 2>&1); rc=$?
  echo "seed=$seed $id rc=$rc :: $(echo "$out" | tail -1 | cut -c1-170)"
  [ $rc -ne 0 ] && echo "$out" | grep "finding\|Error" | head -4 | cut -c1-300
done
