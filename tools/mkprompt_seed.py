# tools/mkprompt_seed.py <Cxx>: creates a scratch worktree /tmp/wt_r5_<Cxx> and prints the prompt for a fresh sub-agent that
# is to seed two property-breaking changes (output under /tmp/seed_r5/<Cxx>/). Adjust the r5 paths for a new round.
import json, sys, os, subprocess
pid = sys.argv[1]
props = {json.loads(l)['id']: json.loads(l) for l in open('/verif/properties.jsonl')}
p = props[pid]
wt = f'/tmp/wt_r5_{pid}'
out = f'/tmp/seed_r5/{pid}'
os.makedirs(out, exist_ok=True)
if not os.path.exists(wt):
    subprocess.check_call(['git', '-C', '/repo', 'worktree', 'add', '-q', '--detach', wt, 'HEAD'])
prev = []
for d in sorted(os.listdir('/verif/seeded')):
    if d.startswith(pid + '_'):
        m = json.load(open(f'/verif/seeded/{d}/meta.json'))
        prev.append('- ' + m['summary'][:300].replace('\n', ' '))
rec = {k: p[k] for k in ('id', 'title', 'statement', 'quantifier', 'why_tests_cant', 'anchors')}
print(f"""You are helping to evaluate a verification effort for the Python library Draegerwerk/sdc11073 (IEEE 11073 SDC stack). Your job is to play the role of a developer who introduces a subtle regression.

Your private scratch git worktree of the library is {wt} (a detached checkout of the current HEAD). Work ONLY inside {wt} and your output directory {out}. Do NOT read or touch /verif, /repo, or any other /tmp/wt_* directory. The library is pure Python; run things with `cd {wt} && PYTHONPATH={wt}/src:{wt} /venv/bin/python ...` (the PYTHONPATH makes your worktree's sources win over the installed editable copy; verify with `python -c "import sdc11073; print(sdc11073.__file__)"`). Tests: `cd {wt} && PYTHONPATH={wt}/src:{wt} /venv/bin/python -m pytest -q -p no:cacheprovider --timeout=900 tests/<file>`. The full suite (381 tests) takes 12-20 minutes; there is no network.

Here is a semantic property of the library that should hold (JSON record):

{json.dumps(rec, indent=1)}

Task: produce TWO different, independent changes to the library source (under {wt}/src/sdc11073, or {wt}/tutorial if the anchored behaviour lives there) each of which BREAKS this property while the library still imports and the repository's existing test suite still passes completely. Each change must be realistic (the kind of slip or "simplification"/"optimisation"/refactoring a maintainer could plausibly make, a few lines) and must need something SPECIFIC to manifest: a particular interleaving of threads or messages, a crash or fault at a particular point, a multi-step sequence of operations, an unusual-but-valid input, or two cooperating sites that each look fine alone. Do NOT produce changes that ordinary use would expose at once, and do not produce changes that merely break an unrelated feature. At most one of your two changes may depend on a thread interleaving; the other must manifest through an input, a fault or a multi-step sequence. The two changes must differ in root cause and preferably in file / mechanism, and each must apply on its own to a clean HEAD.

Other people have already proposed the following changes for this property; yours must differ from them in root cause and location:
{chr(10).join(prev) if prev else '- (none)'}

For each change k in (1, 2) write into {out}/{pid}_k/ :
  * patch.diff  - `git diff` of the change against a clean HEAD (must apply with `git apply` on a clean checkout, on its own)
  * demo.py     - a self-contained demonstration program: `python demo.py <path-to-tree>` puts <path-to-tree>/src and <path-to-tree> at the FRONT of sys.path itself (sys.path.insert(0, ...)) before importing sdc11073, exercises the library in-process (no real network needed if avoidable; loopback sockets on 127.0.0.1 are OK), exits 0 if the property holds on what it exercised and exits 1 (printing what went wrong) if it is violated. It must exit 0 on the clean tree and 1 with your patch applied, deterministically, in well under 2 minutes. It must judge by the property statement, not by implementation details.
  * meta.json   - {{"property": "{pid}", "summary": "<what was changed, where>", "needs": "<what specifically is needed for the violation to manifest>", "files": ["src/sdc11073/..."], "tests_run": ["<command> -> <result>", ...]}}

Procedure: read the anchored code; design the changes; for each: apply in the worktree, run the demo with and without the change (save it with `git diff > x.diff`, then `git apply -R x.diff` and `git apply x.diff`; NEVER use `git stash`: the stash is shared by all worktrees of the repository and other people are working in sibling worktrees), run the most related test files. At the end run the FULL test suite once with BOTH changes applied together (if they do not conflict; otherwise once each) and confirm all 381 tests pass (some tests use real sockets/timing; if a test fails, re-run that single test on the clean tree to tell flakiness from your change; a change that makes any test fail must be reworked). Finally leave the worktree clean (`git -C {wt} checkout -- . && git -C {wt} status --short` shows nothing besides untracked files you created; delete those too).

Report back briefly: for each change the file/function, one paragraph on why it breaks the property and what is needed to trigger it, and the test results.""")
