#!/usr/bin/env python3
"""tools/keep_seeded.py <src dir> <id> <caught_by comma list or 'none'> <notes>: copy a confirmed seeded mutation into /verif/seeded/<id>/"""
import json, os, shutil, sys
src, sid, caught, notes = sys.argv[1], sys.argv[2], sys.argv[3], sys.argv[4]
dst = os.path.join(os.path.dirname(os.path.dirname(os.path.abspath(__file__))), 'seeded', sid)
os.makedirs(dst, exist_ok=True)
for f in ('patch.diff', 'demo.py'):
    shutil.copy(os.path.join(src, f), os.path.join(dst, f))
meta = json.load(open(os.path.join(src, 'meta.json')))
meta['confirmed_by_me'] = ('applied patch.diff to a clean checkout: demo.py exits 1 with the patch and 0 without; '
                           'the agent ran the related repository tests with the patch (see tests_run)')
meta['caught_by'] = [] if caught == 'none' else caught.split(',')
meta['what_i_ran'] = 'tools/try_seeded.sh <dir> ' + ' '.join(meta['caught_by'] or ['<checks>']) + ' (quick tier, VERIF_SEED=1)'
meta['notes'] = notes
json.dump(meta, open(os.path.join(dst, 'meta.json'), 'w'), indent=1)
print('kept', dst)
