#!/usr/bin/env python3
"""Splice tools/section6.md (with the seeded table generated from seeded/*/meta.json) into DESIGN.md between '## 6.' and '## 7.'."""
import os, re, subprocess, sys
root = os.path.dirname(os.path.dirname(os.path.abspath(__file__)))
table = subprocess.run([sys.executable, os.path.join(root, 'tools', 'seeded_table.py')], capture_output=True, text=True, check=True).stdout
sec = open(os.path.join(root, 'tools', 'section6.md')).read().replace('SEEDED_TABLE', table)
p = os.path.join(root, 'DESIGN.md')
s = open(p).read()
a = s.index('## 6. ')
b = s.index('## 7. ')
open(p, 'w').write(s[:a] + sec.rstrip('\n') + '\n\n' + s[b:])
print('DESIGN.md section 6 rewritten,', len(table.splitlines()) - 2, 'seeded changes')
