#!/usr/bin/env python3
"""Print the markdown table of /verif/seeded/*/meta.json (for DESIGN.md section 6.4)."""
import glob, json, os
root = os.path.dirname(os.path.dirname(os.path.abspath(__file__)))
print('| seeded | file(s) | what it needs | caught by (quick tier) | note |')
print('|---|---|---|---|---|')
for d in sorted(glob.glob(os.path.join(root, 'seeded', '*'))):
    m = json.load(open(os.path.join(d, 'meta.json')))
    files = ', '.join(os.path.basename(f) for f in m.get('files', []))
    needs = str(m.get('needs', '')).replace('|', '/').replace('\n', ' ')
    needs = needs if len(needs) <= 150 else needs[:147] + '...'
    note = str(m.get('notes', '')).replace('|', '/').replace('\n', ' ')
    note = note if len(note) <= 230 else note[:227] + '...'
    print(f"| {os.path.basename(d)} | {files} | {needs} | {', '.join(m.get('caught_by') or ['-'])} | {note} |")
