#!/bin/bash
# usage: tools/try_seeded_wt.sh <seeded dir> <check id> [more check ids]
# Like try_seeded.sh, but leaves /repo alone: the patch is applied to a scratch worktree of /repo's HEAD (removed afterwards)
# and the checks run against it through VERIF_REPO.
D="$(cd "$1" && pwd)"; shift
WT=$(mktemp -d /tmp/wt_try_XXXXXX); rmdir "$WT"
git -C /repo worktree add -q --detach "$WT" HEAD || exit 2
trap 'git -C /repo worktree remove --force "$WT" >/dev/null 2>&1' EXIT
if ! git -C "$WT" apply --check "$D/patch.diff" 2>/dev/null; then echo "PATCH DOES NOT APPLY: $D"; exit 3; fi
# NO_DEMO=1: skip the two demo runs (re-checks of seeded changes whose demos were confirmed when they were kept)
[ -z "${NO_DEMO:-}" ] && { echo "== demo on clean tree:"; /venv/bin/python "$D/demo.py" "$WT" >/dev/null 2>&1; echo "   exit $?"; }
git -C "$WT" apply "$D/patch.diff"
[ -z "${NO_DEMO:-}" ] && { echo "== demo with patch:"; /venv/bin/python "$D/demo.py" "$WT" 2>&1 | tail -2 | cut -c1-200; echo "   exit ${PIPESTATUS[0]}"; }
cd /verif
for c in "$@"; do
  out=$(VERIF_REPO="$WT" VERIF_SEED=${VERIF_SEED:-1} ./check "$c" quick 2>&1)
  echo "== $c: exit $? :: $(echo "$out" | grep -c '^VIOLATION') violation line(s)"
  echo "$out" | grep "finding" | head -3 | cut -c1-260
  echo "$out" | tail -1 | cut -c1-200
done
